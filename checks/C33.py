"""C33 Vector arithmetic and scaling round trips match NumPy."""
import itertools

import numpy as np
import openmdao.api as om

LEVEL = 'model_checking'
EXPLANATION = ('The real root and sub-system DefaultVectors of a small Problem (outputs, residuals, inputs; nonlinear and '
               'linear) are filled with symbolic reals and driven through set_val/set_vec/iadd/isub/imul/+=/-=/*=/'
               'add_scal_vec/dot/get_norm/named views/set_var/get_slice/add_to_slice and scale_to_norm/scale_to_phys; '
               'the reference is the same NumPy expression applied to the symbols, and for scaling the documented affine '
               'map with symbolic ref/ref0/res_ref.')
BOUNDS = dict(variables='3 outputs (sizes 2, 2x2 and 1) + 2 inputs, total vector length 7', op_sequences='length <= 2 (quick) / 3 (thorough) over 9 operations',
              scaling='ref/ref0/res_ref symbolic per variable (scalar or per-element), unit pair m->cm and degC->degF on the connected input')
STUBS = ['module-global float in openmdao.utils.general_utils / openmdao.core.system -> pass-through for proxies',
         'sqrt as an atom with y>=0 & y*y==x (get_norm)']
ASSUMPTIONS = ['ref != ref0, res_ref != 0 (documented preconditions)', 'reals, not IEEE']
OUTSIDE = ['PETScVector / distributed vectors', 'complex-step storage (imaginary parts): the symbolic container keeps one object per entry, so a vector with separate real and imaginary storage cannot be represented', 'get_hash']


def harnesses(tier, seed):
    jobs = []
    q = tier == 'quick'
    for kind in ('output', 'residual', 'input'):
        for lin in (False, True):
            jobs.append(dict(fn='h_single_ops', params=dict(kind=kind, linear=lin)))
            jobs.append(dict(fn='h_views', params=dict(kind=kind, linear=lin)))
    L = 2 if q else 3
    seqs = list(itertools.product(range(len(OPS)), repeat=L))
    if q:
        seqs = seqs[::3]
    else:
        import random
        random.Random(seed).shuffle(seqs)
        seqs = seqs[:240]
    chunk = 6 if q else 12
    for i in range(0, len(seqs), chunk):
        jobs.append(dict(fn='h_sequences', params=dict(seqs=[list(s) for s in seqs[i:i + chunk]])))
    for scal in ('scalar', 'array', 'none'):
        for units in ('none', 'len', 'temp'):
            if q and (scal, units) in (('none', 'none'), ('none', 'temp'), ('array', 'none'), ('array', 'temp')):
                continue
            jobs.append(dict(fn='h_scaling', params=dict(scal=scal, units=units)))
    return jobs


def _install(ctx):
    if ctx.sym:
        from symx import stubs
        import openmdao.utils.general_utils as GU
        import openmdao.core.system as SY
        stubs.install_float(GU, SY)


class _Src(om.ExplicitComponent):
    def __init__(self, xp, kw1, kw2, units=None):
        super().__init__()
        self._a = (xp, kw1, kw2, units)

    def setup(self):
        xp, kw1, kw2, units = self._a
        self.add_input('u', val=xp.ones(1))
        self.add_output('y1', val=xp.ones(2), units=units, **kw1)
        self.add_output('y2', val=xp.ones((2, 2)), **kw2)
        self.declare_partials('*', '*', method='fd')

    def compute(self, i, o):
        o['y1'] = i['u'] * 2
        o['y2'] = i['u'] * 3


class _Snk(om.ExplicitComponent):
    def __init__(self, xp, units=None):
        super().__init__()
        self._a = (xp, units)

    def setup(self):
        xp, units = self._a
        self.add_input('x1', val=xp.ones(2), units=units)
        self.add_input('x2', val=xp.ones((2, 2)))
        self.add_output('z', val=xp.ones(1))
        self.declare_partials('*', '*', method='fd')

    def compute(self, i, o):
        o['z'] = i['x1'].sum() + i['x2'].sum()


def _problem(ctx, kw1=None, kw2=None, su=None, tu=None):
    p = om.Problem()
    g = p.model.add_subsystem('g', om.Group())
    g.add_subsystem('src', _Src(ctx.np, kw1 or {}, kw2 or {}, su))
    p.model.add_subsystem('snk', _Snk(ctx.np, tu))
    p.model.connect('g.src.y1', 'snk.x1')
    p.model.connect('g.src.y2', 'snk.x2')
    p.setup()
    p.final_setup()
    return p


def _vec(system, kind, linear):
    name = {('output', False): '_outputs', ('residual', False): '_residuals', ('input', False): '_inputs',
            ('output', True): '_doutputs', ('residual', True): '_dresiduals', ('input', True): '_dinputs'}[(kind, linear)]
    return getattr(system, name)


def _fill(ctx, vec, prefix):
    n = len(vec)
    a = ctx.reals(prefix, n, -100, 100)
    vec.set_val(a)
    return a.copy()


def h_single_ops(ctx, kind, linear):
    """every arithmetic entry point once, against NumPy on the symbols"""
    _install(ctx)
    p = _problem(ctx)
    v = _vec(p.model, kind, linear)
    # a second vector of the same layout: the other kind on the output side, or the twin linear/nonlinear vector
    w = _vec(p.model, {'output': 'residual', 'residual': 'output', 'input': 'input'}[kind],
             linear if kind != 'input' else (not linear))
    n = len(v)
    a = _fill(ctx, v, 'a')
    b = _fill(ctx, w, 'b')
    ctx.eq('set_val', v.asarray(), a)
    s = ctx.real('s', -10, 10)
    t = ctx.real('t', -10, 10)

    ctx.eq('dot', v.dot(w), (a * b).sum())
    nrm = v.get_norm()
    if ctx.sym:
        ctx.check('norm_nonneg', nrm >= 0)
    ctx.eq('norm_sq', nrm * nrm, (a * a).sum(), tol=0 if ctx.sym else 1e-9)

    v += w
    ref = a + b
    ctx.eq('__iadd__', v.asarray(), ref)
    ctx.eq('__iadd__:other_untouched', w.asarray(), b)
    v -= w
    v -= w
    ref = ref - b - b
    ctx.eq('__isub__', v.asarray(), ref)
    v *= s
    ref = ref * s
    ctx.eq('__imul__', v.asarray(), ref)
    v.add_scal_vec(t, w)
    ref = ref + t * b
    ctx.eq('add_scal_vec', v.asarray(), ref)
    ctx.eq('add_scal_vec:other_untouched', w.asarray(), b)
    v.set_vec(w)
    ctx.eq('set_vec', v.asarray(), b)
    # set_vec copies, it must not alias
    w.imul(s)
    ctx.eq('set_vec:no_alias', v.asarray(), b)
    ctx.eq('imul_full', w.asarray(), b * s)
    ref = b.copy()
    idx = np.array([n - 1, 0, 2])
    c = ctx.reals('c', 3, -100, 100)
    v.set_val(c, idx)
    ref[idx] = c
    ctx.eq('set_val_idx', v.asarray(), ref)
    v.iadd(c, slice(1, 4))
    ref[1:4] += c
    ctx.eq('iadd_slice', v.asarray(), ref)
    v.isub(t, idx)
    ref[idx] -= t
    ctx.eq('isub_idx', v.asarray(), ref)
    v.imul(s, slice(None, None, 2))
    ref[::2] *= s
    ctx.eq('imul_slice', v.asarray(), ref)
    v.iadd(s)
    ref += s
    ctx.eq('iadd_scalar_full', v.asarray(), ref)
    cp = v.asarray(copy=True)
    v.set_val(0.0)
    ctx.eq('set_val_scalar', v.asarray(), 0 * ref)
    ctx.eq('asarray_copy_detached', cp, ref)
    ctx.observe('final', cp)


def h_views(ctx, kind, linear):
    """named views alias exactly their slice of the root data, in the root and in sub-system vectors"""
    _install(ctx)
    p = _problem(ctx)
    root = _vec(p.model, kind, linear)
    a = _fill(ctx, root, 'a')
    names = list(root._views)  # absolute names in vector order
    pos = 0
    layout = {}
    for nm in names:
        info = root._views[nm]
        sz = int(np.prod(info.shape)) if info.shape != () else 1
        layout[nm] = (pos, pos + sz, info.shape)
        pos += sz
    ctx.check('layout_covers_vector', pos == len(root))
    for nm, (st, en, shp) in layout.items():
        ctx.check(f'range[{nm}]', tuple(root.get_range(nm)) == (st, en))
        ctx.eq(f'read[{nm}]', root._abs_get_val(nm, flat=False), a[st:en].reshape(shp))
        ctx.eq(f'read_flat[{nm}]', root._abs_get_val(nm), a[st:en])
    # write through each named view; every other element keeps its value
    ref = a.copy()
    for k, (nm, (st, en, shp)) in enumerate(layout.items()):
        val = ctx.reals(f'w{k}', shp if shp != () else 1, -100, 100)
        root._abs_set_val(nm, val)
        ref[st:en] = np.asarray(val).reshape(-1)
        ctx.eq(f'write[{nm}]', root.asarray(), ref)
    # set_vals: one value per variable in vector order, any memory layout (Fortran-ordered and transposed values are
    # stored in C order like view[...] = val)
    vals = []
    for k, (nm, (st, en, shp)) in enumerate(layout.items()):
        v = ctx.reals(f'sv{k}', shp if shp != () else 1, -100, 100)
        if len(shp) == 2:
            v = np.asfortranarray(v) if k % 2 == 0 else v.T.copy().T
        ref[st:en] = np.asarray(v).reshape(-1)        # C-order flattening of the logical array
        vals.append(v)
    root.set_vals(vals)
    ctx.eq('set_vals', root.asarray(), ref)
    # sub-system vectors are views of the root array
    sysm = p.model.g.src if kind != 'input' else p.model.snk
    sub = _vec(sysm, kind, linear)
    prom = list(sub.keys()) if not (linear and kind in ('input', 'output')) else [n.rpartition('.')[2] for n in sub._views]
    off = layout[next(iter(sub._views))][0]
    ctx.eq('sub_is_slice', sub.asarray(), ref[off:off + len(sub)])
    nm0 = prom[0]
    absn = sysm.pathname + '.' + nm0
    st, en, shp = layout[absn]
    if not (linear and kind == 'input'):
        val = ctx.reals('sv', shp, -100, 100)
        sub[nm0] = val
        ref[st:en] = np.asarray(val).reshape(-1)
        ctx.eq('sub_write_seen_in_root', root.asarray(), ref)
        last = np.asarray(val).reshape(-1)[-1:] * 2
        sub.set_var(nm0, last, idxs=np.array([-1]), flat=True)
        ref[en - 1] = last[0]
        ctx.eq('set_var_idx', root.asarray(), ref)
    root.asarray()[st] = ctx.const(7)
    ref[st] = ctx.const(7)
    got = sub._abs_get_val(absn)
    ctx.eq('root_write_seen_in_sub', got, ref[st:en])
    # get_slice / add_to_slice on the root
    slc = slice(1, 5)
    ctx.eq('get_slice', root.get_slice(slc), ref[slc])
    add = ctx.reals('ad', 4, -100, 100)
    root.add_to_slice(slc, add)
    ref[slc] += add
    ctx.eq('add_to_slice', root.asarray(), ref)
    ctx.observe('final', root.asarray(copy=True))


def _op_setval(v, w, r, rw, s, c, idx): v.set_val(c, idx); r[idx] = c
def _op_iadd(v, w, r, rw, s, c, idx): v.iadd(c, idx); r[idx] = r[idx] + c
def _op_isub(v, w, r, rw, s, c, idx): v.isub(s); r -= s
def _op_imul(v, w, r, rw, s, c, idx): v.imul(s, slice(1, None)); r[1:] *= s
def _op_iaddv(v, w, r, rw, s, c, idx): v.__iadd__(w); r += rw
def _op_isubv(v, w, r, rw, s, c, idx): v.__isub__(w); r -= rw
def _op_imulv(v, w, r, rw, s, c, idx): v.__imul__(s); r *= s
def _op_asv(v, w, r, rw, s, c, idx): v.add_scal_vec(s, w); r += s * rw
def _op_swap(v, w, r, rw, s, c, idx): w.set_vec(v); rw[:] = r


OPS = [_op_setval, _op_iadd, _op_isub, _op_imul, _op_iaddv, _op_isubv, _op_imulv, _op_asv, _op_swap]


def h_sequences(ctx, seqs):
    """operation sequences on the nonlinear output/residual pair; reference = NumPy on the symbols"""
    _install(ctx)
    p = _problem(ctx)
    v, w = p.model._outputs, p.model._residuals
    n = len(v)
    a0 = ctx.reals('a', n, -10, 10)
    b0 = ctx.reals('b', n, -10, 10)
    s = ctx.real('s', -10, 10)
    c = ctx.reals('c', 2, -10, 10)
    idx = np.array([n - 2, 1])
    for k, seq in enumerate(seqs):
        v.set_val(a0)
        w.set_val(b0)
        r, rw = a0.copy(), b0.copy()
        for o in seq:
            OPS[o](v, w, r, rw, s, c, idx)
        tag = '-'.join(OPS[o].__name__[4:] for o in seq)
        ctx.eq(f'v[{tag}]', v.asarray(), r)
        ctx.eq(f'w[{tag}]', w.asarray(), rw)
        ctx.eq(f'dot[{tag}]', v.dot(w), (r * rw).sum())
        if k == 0:
            ctx.observe('v', v.asarray(copy=True))


def h_scaling(ctx, scal, units):
    """scale_to_norm is the documented affine map and scale_to_phys inverts it (fwd and rev)"""
    _install(ctx)
    from openmdao.utils.units import unit_conversion
    su, tu = {'none': (None, None), 'len': ('m', 'cm'), 'temp': ('degC', 'degF')}[units]
    f, o = unit_conversion(su, tu) if su else (1, 0)
    f, o = ctx.const(f), ctx.const(o)
    tol = 0 if units == 'none' else 1e-9
    B = 50

    def nz(x):
        ctx.assume((x >= ctx.const('1/50')) | (x <= ctx.const('-1/50')))
    if scal == 'none':
        kw1 = kw2 = {}
        ref1 = [ctx.const(1)] * 2
        ref01 = [ctx.const(0)] * 2
        rr1 = [ctx.const(1)] * 2
        ref2 = [ctx.const(1)] * 4
        ref02 = [ctx.const(0)] * 4
        rr2 = [ctx.const(1)] * 4
    else:
        if scal == 'scalar':
            r1, r01, q1 = ctx.real('ref1', -B, B), ctx.real('ref01', -B, B), ctx.real('rr1', -B, B)
            nz(r1 - r01), nz(q1)
            kw1 = dict(ref=r1, ref0=r01, res_ref=q1)
            ref1, ref01, rr1 = [r1] * 2, [r01] * 2, [q1] * 2
        else:
            r1, r01, q1 = ctx.reals('ref1', 2, -B, B), ctx.reals('ref01', 2, -B, B), ctx.reals('rr1', 2, -B, B)
            for i in range(2):
                nz(r1[i] - r01[i]), nz(q1[i])
            kw1 = dict(ref=r1, ref0=r01, res_ref=q1)
            ref1, ref01, rr1 = list(r1), list(r01), list(q1)
        r2 = ctx.real('ref2', -B, B)
        nz(r2)
        kw2 = dict(ref=r2)       # res_ref defaults to ref
        ref2, ref02, rr2 = [r2] * 4, [ctx.const(0)] * 4, [r2] * 4
    p = _problem(ctx, kw1, kw2, su, tu)
    m = p.model
    one, zero = ctx.const(1), ctx.const(0)
    # vector order of outputs/residuals: g.src.y1 (2), g.src.y2 (4), snk.z (1); inputs: g.src.u, snk.x1 (2), snk.x2 (4)
    a1o = [ref1[i] - ref01[i] for i in range(2)] + [ref2[i] - ref02[i] for i in range(4)] + [one]
    a0o = ref01 + ref02 + [zero]
    rres = rr1 + rr2 + [one]
    names_o = list(m._outputs._views)
    names_i = list(m._inputs._views)
    ctx.check('order_outputs', names_o == ['_auto_ivc.v0', 'g.src.y1', 'g.src.y2', 'snk.z'])
    ctx.check('order_inputs', names_i == ['g.src.u', 'snk.x1', 'snk.x2'])
    # input scaling: phys_in = ((norm*a1 + a0) + o) * f   (unit conversion only on x1); u is unconnected -> auto_ivc, unscaled
    a1i = [one] + [a1o[i] * f for i in range(2)] + [a1o[2 + i] for i in range(4)]
    a0i = [zero] + [(a0o[i] + o) * f for i in range(2)] + [a0o[2 + i] for i in range(4)]
    a1o = [one] + a1o          # _auto_ivc.v0 (feeds g.src.u) comes first and is unscaled
    a0o = [zero] + a0o
    rres = [one] + rres

    def arr(xs):
        return ctx.array(xs) if ctx.sym else np.array(xs, dtype=float)
    a1o_, a0o_, rres_, a1i_, a0i_ = map(arr, (a1o, a0o, rres, a1i, a0i))

    for kind, lin, scale1, scale0 in (('output', False, a1o_, a0o_), ('residual', False, rres_, None), ('input', False, a1i_, a0i_),
                                      ('output', True, a1o_, None), ('residual', True, rres_, None)):
        v = _vec(m, kind, lin)
        if v._scaling is None:
            # no scaling of this kind anywhere in the model: the framework never scales this vector
            ctx.eq(f'unscaled[{kind},{"lin" if lin else "nl"}]:scale', scale1, 1 + 0 * scale1)
            if scale0 is not None:
                ctx.eq(f'unscaled[{kind},{"lin" if lin else "nl"}]:adder', scale0, 0 * scale0)
            continue
        x = _fill(ctx, v, f'{kind[0]}{int(lin)}')
        v.scale_to_norm()
        want = (x - scale0) / scale1 if scale0 is not None else x / scale1
        t = tol if kind == 'input' else 0
        ctx.eq(f'norm[{kind},{"lin" if lin else "nl"}]', v.asarray(), want, t)
        v.scale_to_phys()
        ctx.eq(f'roundtrip[{kind},{"lin" if lin else "nl"}]', v.asarray(), x, t)
        if lin:
            v.scale_to_norm('rev')
            ctx.eq(f'norm_rev[{kind}]', v.asarray(), x * scale1)
            v.scale_to_phys('rev')
            ctx.eq(f'roundtrip_rev[{kind}]', v.asarray(), x)
    # linear inputs: fwd uses the nonlinear scaling (d_in_phys = d_norm * a1 * f); rev uses factor/a1
    v = m._dinputs
    if v._scaling is None:
        ctx.eq('unscaled[dinput]', a1i_, 1 + 0 * a1i_)
        return
    x = _fill(ctx, v, 'di')
    v.scale_to_norm()
    ctx.eq('norm[dinput,fwd]', v.asarray(), x / a1i_, tol)
    v.scale_to_phys()
    ctx.eq('roundtrip[dinput,fwd]', v.asarray(), x, tol)
    a1src = arr([one] + a1o[-7:-1]) if True else None
    fac = arr([one] + [f] * 2 + [one] * 4)
    v.scale_to_norm('rev')
    ctx.eq('norm[dinput,rev]', v.asarray(), x * fac / a1src, tol)
    v.scale_to_phys('rev')
    ctx.eq('roundtrip[dinput,rev]', v.asarray(), x, tol)
    # the context managers used by the framework: inside the scaled context the named values are normalised
    xo = _fill(ctx, m._outputs, 'xo')
    with m._scaled_context_all():
        ctx.eq('ctx_scaled', m._outputs.asarray(), (xo - a0o_) / a1o_)
        with m._unscaled_context(outputs=[m._outputs]):
            ctx.eq('ctx_unscaled_nested', m._outputs.asarray(), xo)
        ctx.eq('ctx_rescaled', m._outputs.asarray(), (xo - a0o_) / a1o_)
    ctx.eq('ctx_exit', m._outputs.asarray(), xo)
    ctx.observe('final', m._outputs.asarray(copy=True))
