"""C04 Connected inputs hold their source value with indices and units applied."""
import numpy as np
import openmdao.api as om

from progfam.library import LIBRARY, IMPLICIT, IDX_FAMILY, QUICK_FORMS

LEVEL = 'model_checking'
EXPLANATION = ('Whole-Problem symbolic runs over the program family: every source output element is a symbolic real; '
               'after run_model (and at the entry of every component evaluation) each input element must equal the '
               'ground-truth dataflow value NumPy-index-chain(source) converted with the library unit factors.  The '
               'ground truth comes from the generator, never from OpenMDAO name resolution.')
BOUNDS = dict(programs='13 hand-built members of progfam/library.py (quick); quick adds 7 index forms (permuted/duplicate spans, row selection in a non-flat 2-D source); thorough adds the whole index-form family: 18 NumPy index forms x '
              '{connect, promotes} x {no units, m->cm, degC->degF} = 108 one-consumer programs; structures are enumerated, not quantified',
              variable_size='<= 6', index_forms='int arrays with negatives/duplicates, slices incl. negative step, tuple (slice, list), '
              'flat and non-flat, 1-D/2-D sources, promotes src_indices at 1-2 levels', units='m/cm/mm, degC/degF/degK/degR')
STUBS = []
ASSUMPTIONS = ['reals; unit factors/offsets are the float64 library constants (1e-9 margin where units differ)']
OUTSIDE = ['distributed variables / MPI', 'N-D arrays of flat indices (rejected by OpenMDAO at setup)', 'inputs inside iterating nonlinear solvers (converged-state form only)']


def harnesses(tier, seed):
    jobs = [dict(fn='h_prog', params=dict(prog=name)) for name in LIBRARY]
    jobs += [dict(fn='h_prog', params=dict(prog=name)) for name in IMPLICIT]
    jobs.append(dict(fn='h_discrete', params={}))
    if tier == 'quick':
        jobs += [dict(fn='h_prog', params=dict(prog=f'idx_form{k}_connect_none')) for k in QUICK_FORMS]
        jobs += [dict(fn='h_prog', params=dict(prog=f'idx_form{k}_promote_len')) for k in QUICK_FORMS[:3]]
    if tier != 'quick':
        # index-form family: 11 NumPy index forms x {connect, promotes} x {no units, factor, factor+offset}
        jobs += [dict(fn='h_prog', params=dict(prog=name)) for name in IDX_FAMILY]
    return jobs


def _get(name):
    return (LIBRARY.get(name) or IMPLICIT.get(name) or IDX_FAMILY[name])()


def h_prog(ctx, prog):
    P = _get(prog)
    p = P.build(ctx)
    probes = []
    for c in P._comps.values():
        c._probe = probes
    vals = P.set_indeps(ctx, p)
    states = {}
    for sv in getattr(P, 'states', []):
        s = ctx.reals('s_' + sv.abs.replace('.', '_'), sv.shape, -10, 10)
        p.set_val(sv.abs, s)
        states[sv.abs] = s
    p.run_model()
    out, exp_in, resid = P.reference(ctx, vals, states)
    tol = 1e-9 if P.uses_units() else 0
    for name, want in exp_in.items():
        got = p.get_val(name, from_src=False)
        ctx.eq('in:' + name, got, want, tol)
        ctx.eq('vec:' + name, p.model._inputs[name], want, tol)
    seen = set()
    for snap in probes:
        for name, got in snap.items():
            k = (name, name in seen)
            seen.add(name)
            ctx.eq(f'at_compute:{name}#{int(k[1])}', got, exp_in[name], tol)
    for name, want in out.items():
        if name in vals or name in states:
            continue
        ctx.eq('out:' + name, p.get_val(name), want, tol)
    ctx.observe('outs', [p.get_val(o) for o in P.ofs])


class _DOut(om.ExplicitComponent):
    def setup(self):
        self.add_discrete_output('d', val=None)
        self.add_output('y', 1.0)

    def compute(self, i, o, di=None, do=None):
        do['d'] = self._obj
        o['y'] = 2.0


class _DIn(om.ExplicitComponent):
    def setup(self):
        self.add_discrete_input('d', val=None)
        self.add_input('y', 1.0)
        self.add_output('z', 1.0)

    def compute(self, i, o, di=None, do=None):
        self.seen = di['d']
        o['z'] = i['y'] * 3


def h_discrete(ctx):
    """a discrete input receives its source *object* (promoted and explicitly connected)"""
    marker = {'k': [1, 2, 3]}
    p = om.Problem()
    src = p.model.add_subsystem('src', _DOut(), promotes_outputs=['d'])
    src._obj = marker
    t1 = p.model.add_subsystem('t1', _DIn(), promotes_inputs=['d'])
    g = p.model.add_subsystem('g', om.Group())
    t2 = g.add_subsystem('t2', _DIn())
    p.model.connect('d', 'g.t2.d')
    p.model.connect('src.y', ['t1.y', 'g.t2.y'])
    p.setup()
    p.run_model()
    ctx.check('promoted_discrete_is_source_object', t1.seen is marker)
    ctx.check('connected_discrete_is_source_object', t2.seen is marker)
    ctx.check('get_val_discrete', p.get_val('g.t2.d') is marker)
    ctx.eq('z', p.get_val('t1.z'), 6.0)
