"""C16 Interpolation derivatives are exact derivatives of the interpolant."""
import numpy as np
import openmdao.api as om
from openmdao.components.interp_util.interp import InterpND

from checks.C15 import GRIDS, GENERAL, FIXED, MINPTS, base, _grid, _interp

LEVEL = 'model_checking'
EXPLANATION = ('InterpND.interpolate(compute_derivative=True), MetaModelStructuredComp (training_data_gradients) and SplineComp '
               'executed through real Problems with symbolic query points and symbolic table / control-point values on concrete '
               'exact grids; every returned derivative entry must equal the chain-rule derivative of the term the code returned for '
               'the value (per bracketed cell: the path condition fixes the cell), and for the methods that are linear in the table '
               'the value must equal sum(d_dvalues * values).')
BOUNDS = dict(dimension='1-2 (2-D cubic and akima: concrete table, symbolic query point)', grid_points='4-6 per axis', methods='slinear, lagrange2, lagrange3, akima, cubic, 1D-/2D- fixed variants; SplineComp also bsplines',
              akima='free symbolic values on <= 3 table entries around the cell, the rest concrete (each symbolic slope difference forks on its sign)')
STUBS = ['np proxy', 'module-global float pass-through in general_utils/system (Problem runs)']
ASSUMPTIONS = ['query points strictly inside a cell or on a node as selected by the bracketing path (one-sided at cell boundaries)', 'reals']
OUTSIDE = ['scipy_* methods', 'akima derivatives under extrapolation in an earlier dimension (isolated non-differentiable query points, see harnesses())', 'bsplines (its basis matrix is a scipy.sparse matrix, which cannot carry symbolic entries; no sparse stub is installed for it)', 'derivatives w.r.t. the grid coordinates', 'akima smoothing option delta_x > 0 (default is 0... uses the plain absolute value)']


def harnesses(tier, seed):
    q = tier == 'quick'
    jobs = []
    for g in (['cross'] if q else ['cross', 'neg', 'wide']):
        for m in GENERAL + FIXED[1]:
            n = 5 if base(m) == 'akima' else (4 if q else 5)
            if q and base(m) == 'akima':
                continue
            jobs.append(dict(fn='h_dx', params=dict(method=m, grids=[g], npts=[n]), max_paths=20000))
    for g1, g2 in [('cross', 'neg0')] + ([] if q else [('pos', 'neg')]):
        # 2-D cubic / akima with a free symbolic table do not finish (> 25 CPU-minutes per harness: the spline coefficients are
        # rational functions of 16-25 symbols); their 2-D derivatives are covered with a concrete table by h_gradient
        for m in ['slinear', 'lagrange2', 'lagrange3', '2D-slinear', '2D-lagrange2', '2D-lagrange3']:
            n = 5 if base(m) == 'akima' else MINPTS[base(m)]
            jobs.append(dict(fn='h_dx', params=dict(method=m, grids=[g1, g2], npts=[n, max(n - 1, MINPTS[base(m)])]), max_paths=20000, wall_s=900 if q else 2400))
    for m in ['slinear', 'lagrange2', 'lagrange3', 'cubic'] + ([] if q else ['akima', '1D-slinear', '1D-lagrange2', '1D-lagrange3', '1D-akima']):
        jobs.append(dict(fn='h_mm', params=dict(method=m, dim=1), max_paths=20000))
    for m in ['slinear', 'lagrange2'] + ([] if q else ['lagrange3', '2D-slinear', '2D-lagrange2', '2D-lagrange3']):
        jobs.append(dict(fn='h_mm', params=dict(method=m, dim=2), max_paths=20000, wall_s=900 if q else 2400))
    # InterpND.gradient() on a fresh interpolant and after an interpolate() call at the same / another point (concrete table)
    for m in ['slinear', 'lagrange2', 'lagrange3', 'akima', 'cubic', '2D-slinear', '2D-lagrange2', '2D-lagrange3']:
        jobs.append(dict(fn='h_gradient', params=dict(method=m), max_paths=20000))
    # extrapolation in the first dimension (a fixed point outside the grid), derivative along the second one
    # (akima is left out here: along an extrapolated line its slope differences tie at isolated query points for every table
    # tried, the weights |m_i - m_j| are not differentiable there and the solver finds exactly those points)
    for m in ['cubic', 'slinear', 'lagrange2'] if q else ['cubic', 'slinear', 'lagrange2', 'lagrange3', '2D-slinear', '2D-lagrange2', '2D-lagrange3']:
        for where in ('above', 'below'):
            jobs.append(dict(fn='h_gradient', params=dict(method=m, where=where, tseed=5), max_paths=20000))
    # training data changed between two runs of the same problem (training_data_gradients)
    for m in ['slinear', 'lagrange2', 'lagrange3', 'cubic'] + ([] if q else ['akima', '1D-slinear', '1D-lagrange2', '1D-lagrange3', '1D-akima']):
        jobs.append(dict(fn='h_mm', params=dict(method=m, dim=1, reruns=1), max_paths=20000))
    for m in ['slinear', 'lagrange2', 'lagrange3', 'cubic'] + ([] if q else ['akima']):
        jobs.append(dict(fn='h_spline', params=dict(method=m, vec=1 if q else 2), max_paths=20000))
    return jobs


def _install(ctx):
    if ctx.sym:
        from symx import stubs
        import openmdao.utils.general_utils as GU
        import openmdao.core.system as SY
        stubs.install_float(GU, SY)


def _table(ctx, method, shape, tag='t'):
    """symbolic table; for akima only a few entries are symbolic (sign forks of every slope difference)"""
    if base(method) != 'akima':
        t = ctx.reals(tag, shape, -10, 10)
        return t, [t[ix] for ix in np.ndindex(*shape)], list(np.ndindex(*shape))
    rng = np.random.default_rng(11 + len(shape))
    conc = rng.integers(-9, 10, size=shape)
    t = ctx.consts(conc.tolist())
    syms, idxs = [], []
    flat = list(np.ndindex(*shape))
    for k in (len(flat) // 2 - 1, len(flat) // 2, len(flat) // 2 + 1):
        ix = flat[k]
        s = ctx.real(f'{tag}_' + '_'.join(map(str, ix)), -10, 10)
        t[ix] = s
        syms.append(s)
        idxs.append(ix)
    return t, syms, idxs


def h_dx(ctx, method, grids, npts):
    dim = len(grids)
    grid = _grid(ctx, grids, npts)
    t, _, _ = _table(ctx, method, tuple(npts))
    itp = _interp(ctx, method, grid, t, extrapolate=False)
    xs = [ctx.real(f'x{d}', float(grid[d][0]), float(grid[d][-1])) for d in range(dim)]
    x = ctx.array(xs) if ctx.sym else np.array(xs, dtype=float)
    val, d_dx = itp.interpolate(x, compute_derivative=True)
    val = np.asarray(val).reshape(-1)[0]
    d_dx = np.asarray(d_dx).reshape(-1)
    ctx.check('gradient_shape', d_dx.size == dim)

    def fd_for(j):
        def fd(delta):
            x2 = np.array([float(v) for v in xs])
            x2[j] += delta
            it2 = _interp(ctx, method, grid, t, extrapolate=True)
            return np.asarray(it2.interpolate(x2)).reshape(-1)[0]
        return fd
    for j in range(dim):
        ctx.deriv(f'd_dx[{j}]', d_dx[j], val, xs[j], fd_for(j), tol=1e-9)
    # gradient() returns the cached derivative for the same point
    # (away from the nodes: on a node the bracketing may legitimately pick either adjacent cell, the derivative is one-sided)
    on_node = any(bool(xs[d] == float(gv)) for d in range(dim) for gv in grid[d])
    if not on_node:
        g = np.asarray(itp.gradient(x)).reshape(-1)
        for j in range(dim):
            ctx.eq(f'gradient_method[{j}]', g[j], d_dx[j], 1e-9)
    ctx.observe('val', val)
    ctx.observe('d_dx', d_dx)


def h_mm(ctx, method, dim, reruns=0):
    """MetaModelStructuredComp with training_data_gradients: partials wrt the query and wrt every training value"""
    _install(ctx)
    names = ['cross', 'neg0'][:dim]
    n0 = 5 if base(method) == 'akima' else MINPTS[base(method)] + (1 if dim == 1 else 0)
    npts = [n0, MINPTS[base(method)]][:dim]
    grid = _grid(ctx, names, npts)
    shape = tuple(npts)
    t, syms, idxs = _table(ctx, method, shape)
    xs = [ctx.real(f'x{d}', float(grid[d][0]), float(grid[d][-1])) for d in range(dim)]
    for d in range(dim):        # on a node the derivative is one-sided (the float replay differentiates across it)
        for gv in grid[d]:
            ctx.assume(xs[d] != float(gv))
    p = om.Problem()
    comp = om.MetaModelStructuredComp(method=method, extrapolate=True, training_data_gradients=True, vec_size=1)
    for d in range(dim):
        comp.add_input(f'x{d}', 0.0, training_data=grid[d])
    comp.add_output('f', 1.0, training_data=np.zeros(shape))
    p.model.add_subsystem('mm', comp)
    p.setup(force_alloc_complex=False)
    p.final_setup()
    for d in range(dim):
        p.set_val(f'mm.x{d}', xs[d])
    for k in range(reruns):
        # an earlier run of the same problem with other training data (and another point): nothing of it may survive
        for d in range(dim):
            p.set_val(f'mm.x{d}', ctx.const(float(grid[d][1]) + 0.125))
        rng0 = np.random.default_rng(17 + k)
        p.set_val('mm.f_train', ctx.consts(rng0.integers(-9, 10, size=shape).tolist()))
        p.run_model()
        p.compute_totals(of=['mm.f'], wrt=[f'mm.x{d}' for d in range(dim)] + ['mm.f_train'])
        for d in range(dim):
            p.set_val(f'mm.x{d}', xs[d])
    p.set_val('mm.f_train', t)
    p.run_model()
    val = np.asarray(p.get_val('mm.f')).reshape(-1)[0]
    wrt = [f'mm.x{d}' for d in range(dim)] + ['mm.f_train']
    J = p.compute_totals(of=['mm.f'], wrt=wrt, return_format='dict')['mm.f']

    def rerun(dx=None, dt=None):
        def fd(delta):
            for d in range(dim):
                p.set_val(f'mm.x{d}', float(xs[d]) + (delta if dx == d else 0.0))
            t2 = np.array(t, dtype=float).copy()
            if dt is not None:
                t2[dt] += delta
            p.set_val('mm.f_train', t2)
            p.run_model()
            return np.asarray(p.get_val('mm.f')).reshape(-1)[0]
        return fd
    for d in range(dim):
        ctx.deriv(f'df_dx{d}', np.asarray(J[f'mm.x{d}']).reshape(-1)[0], val, xs[d], rerun(dx=d), tol=1e-9)
    Jt = np.asarray(J['mm.f_train']).reshape(shape)
    for s, ix in zip(syms, idxs):
        ctx.deriv(f'df_dtrain{list(ix)}', Jt[ix], val, s, rerun(dt=ix), tol=1e-9)
    if base(method) != 'akima':
        # linear in the table values with the returned gradient as coefficients
        lin = 0
        for ix in np.ndindex(*shape):
            lin = lin + Jt[ix] * t[ix]
        ctx.eq('linear_in_values', val, lin, 1e-9)
        tot = 0
        for ix in np.ndindex(*shape):
            tot = tot + Jt[ix]
        ctx.eq('weights_sum_to_one', tot, 1, 1e-9)
    ctx.observe('val', val)


def h_spline(ctx, method, vec):
    """SplineComp: y_interp = spline(y_cp); partials wrt the control points"""
    _install(ctx)
    x_cp = np.array(GRIDS['pos'][:6], dtype=float)
    x_interp = np.array([0.5, 0.8, 2.0, 2.5, 3.75, 6.0])
    ncp = len(x_cp)
    if method == 'akima':
        rng = np.random.default_rng(5)
        y = ctx.consts(rng.integers(-9, 10, size=(vec, ncp)).tolist())
        syms = []
        for r in range(vec):
            for k in (2, 3):
                s = ctx.real(f'y_{r}_{k}', -10, 10)
                y[r, k] = s
                syms.append((r, k, s))
    else:
        y = ctx.reals('y', (vec, ncp), -10, 10)
        syms = [(r, k, y[r, k]) for r in range(vec) for k in range(ncp)]
    p = om.Problem()
    kw = dict(num_cp=ncp) if method == 'bsplines' else dict(x_cp_val=x_cp)
    comp = om.SplineComp(method=method, x_interp_val=x_interp, vec_size=vec, **kw)
    comp.add_spline(y_cp_name='ycp', y_interp_name='yi', y_cp_val=np.zeros((vec, ncp)))
    p.model.add_subsystem('sp', comp)
    p.setup()
    p.final_setup()
    p.set_val('sp.ycp', y)
    p.run_model()
    yi = np.array(np.asarray(p.get_val('sp.yi')))       # a copy: the finite-difference reruns of a float replay overwrite the output vector
    J = np.asarray(p.compute_totals(of=['sp.yi'], wrt=['sp.ycp'], return_format='array'))
    ni = len(x_interp)
    ctx.check('jac_shape', J.shape == (vec * ni, vec * ncp))

    def fd_for(r, k):
        def fd(delta):
            y2 = np.array(y, dtype=float).copy()
            y2[r, k] += delta
            p.set_val('sp.ycp', y2)
            p.run_model()
            return np.asarray(p.get_val('sp.yi'))
        return fd
    for r, k, s in syms:
        for r2 in range(vec):
            for i in range(ni):
                f = fd_for(r, k)
                ctx.deriv(f'dyi[{r2},{i}]_dycp[{r},{k}]', J[r2 * ni + i, r * ncp + k], yi[r2, i], s,
                          (lambda delta, f=f, r2=r2, i=i: f(delta)[r2, i]), tol=1e-9)
    if method in ('slinear', 'lagrange2', 'lagrange3', 'cubic', 'akima') and method != 'akima':
        # interpolating splines reproduce the control points that coincide with an interpolation location
        ctx.eq('passes_through_first_cp', yi[0, 0], y[0, 0], 1e-9)
        ctx.eq('passes_through_last_cp', yi[0, ni - 1], y[0, ncp - 1], 1e-9)
    ctx.observe('yi', yi)


def h_gradient(ctx, method, where='inside', tseed=3):
    """gradient(x) is the derivative of interpolate(x) whatever was asked of the interpolant before: nothing, a plain
    interpolate(x), an interpolate with derivatives at another point"""
    dim = 2
    grid = _grid(ctx, ['cross', 'neg0'], [5, 5])
    rng = np.random.default_rng(tseed)
    t = ctx.consts(rng.integers(-9, 10, size=(5, 5)).tolist())
    xs = [ctx.real(f'x{d}', float(grid[d][0]), float(grid[d][-1])) for d in range(dim)]
    symdims = list(range(dim))
    if base(method) == 'akima' or where != 'inside':
        # the second-dimension akima weights are |differences| of the first-dimension results: with a symbolic x0 they are
        # absolute values of cubics in x0 and z3 does not finish; x0 is a fixed point (interior, or outside the grid:
        # extrapolation), x1 stays symbolic
        xs[0] = ctx.const({'inside': 0.7, 'above': float(grid[0][-1]) + 0.75, 'below': float(grid[0][0]) - 0.5}[where])
        symdims = [1]
    x = ctx.array(xs) if ctx.sym else np.array(xs, dtype=float)
    on_node = any(bool(xs[d] == float(gv)) for d in range(dim) for gv in grid[d])
    if on_node:
        ctx.check('on_a_node_the_derivative_is_one_sided', True)
        return
    ref = _interp(ctx, method, grid, t, extrapolate=True)
    val = np.asarray(ref.interpolate(x)).reshape(-1)[0]

    def fd_for(j):
        def fd(delta):
            x2 = np.array([float(v) for v in xs])
            x2[j] += delta
            return np.asarray(_interp(ctx, method, grid, t, extrapolate=True).interpolate(x2)).reshape(-1)[0]
        return fd
    for hist in ('fresh', 'after_plain_interpolate', 'after_other_point'):
        itp = _interp(ctx, method, grid, t, extrapolate=True)
        if hist == 'after_plain_interpolate':
            itp.interpolate(x)
        elif hist == 'after_other_point':
            other = ctx.array([ctx.const(0.25), ctx.const(-1.75)]) if ctx.sym else np.array([0.25, -1.75])
            itp.interpolate(other, compute_derivative=True)
        g = np.asarray(itp.gradient(x)).reshape(-1)
        ctx.check(f'{hist}:shape', g.size == dim)
        for j in (symdims if ctx.sym else range(dim)):
            ctx.deriv(f'{hist}:gradient[{j}]', g[j], val, xs[j], fd_for(j), tol=1e-9)
    ctx.observe('val', val)
