"""C14 ExecComp evaluates its expressions and their exact partials."""
import random

import numpy as np
import openmdao.api as om

LEVEL = 'model_checking'
EXPLANATION = ('Real ExecComp instances inside a Problem, inputs symbolic: outputs must equal the expression evaluated on the symbols '
               '(the harness evaluates the same expression tree independently), and the partials that ExecComp obtains by complex step '
               '(carried here by a symbolic complex number re + i*im) and hands to the framework must equal the chain-rule derivative of '
               'the output terms - with and without has_diag_partials, with declared coloring, with shape_by_conn, for scalar and array '
               'variables.')
BOUNDS = dict(expressions='generated over + - * / ** (integer powers 2,3), unary minus, constants, sum(), dot(), and the algebraic function table entries '
              '(abs excluded); <= 3 variables, arrays of size <= 3; quick 24 / thorough 120 expressions', step='complex step 1e-40: exact for polynomials of degree <= 2, '
              'relative error <= 1e-30 otherwise (margin 1e-12)')
STUBS = ['symbolic complex numbers (pair of symbolic reals) through NumPy object arrays', 'module-global float/complex pass-through in exec_comp']
ASSUMPTIONS = ['denominators nonzero on the explored paths', 'reals', 'array partial sparsity / coloring is detected by ExecComp at a fixed generic point before the symbolic evaluation']
OUTSIDE = ['transcendental entries of the function table (their complex extensions are C code in NumPy: exp, log, sin, ... )', 'abs/arctan2 (C30)', 'user-registered functions', 'units/metadata kwargs']


def _gen(rng, nvar, arr):
    """expression string + evaluator on a dict of values (arrays broadcast elementwise)"""
    names = ['a', 'b', 'c'][:nvar]

    def leaf():
        r = rng.random()
        if r < 0.7:
            return rng.choice(names)
        return repr(rng.choice([2, 3, 0.5, -1.5, 4]))

    def expr(d):
        if d == 0:
            return leaf()
        k = rng.random()
        if k < 0.3:
            return f'({expr(d - 1)} + {expr(d - 1)})'
        if k < 0.5:
            return f'({expr(d - 1)} - {expr(d - 1)})'
        if k < 0.8:
            return f'({expr(d - 1)} * {expr(d - 1)})'
        if k < 0.88:
            return f'({expr(d - 1)})**{rng.choice([2, 3])}'
        if k < 0.94:
            return f'(-{expr(d - 1)})'
        return f'({expr(d - 1)} / ({rng.choice(names)}**2 + 1.5))'
    return expr(2 if arr else 3), names


def harnesses(tier, seed):
    q = tier == 'quick'
    rng = random.Random(seed)
    jobs = []
    n = 12 if q else 60
    for k in range(n):
        nvar = rng.choice([1, 2, 3])
        e, names = _gen(rng, nvar, False)
        names = [n for n in names if n in e.replace('abs', '')]
        if not names:
            continue
        jobs.append(dict(fn='h_expr', params=dict(expr=e, names=names, size=1, opts='plain')))
    for k in range(n):
        nvar = rng.choice([1, 2])
        e, names = _gen(rng, nvar, True)
        names = [n for n in names if n in e]
        if not names:
            continue
        size = rng.choice([2, 3])
        jobs.append(dict(fn='h_expr', params=dict(expr=e, names=names, size=size, opts=rng.choice(['plain', 'diag', 'coloring', 'shape_by_conn']))))
    for e, names, size, opts in [('dot(a, b) + sum(c)', ['a', 'b', 'c'], 3, 'plain'), ('a * sum(b)', ['a', 'b'], 2, 'plain'),
                                 ('a[::-1] * b', ['a', 'b'], 3, 'plain'), ('a**2 + 3.0*a*b', ['a', 'b'], 3, 'diag'),
                                 ('a**2 + 3.0*a*b', ['a', 'b'], 3, 'coloring')]:
        jobs.append(dict(fn='h_expr', params=dict(expr=e, names=names, size=size, opts=opts)))
    for e, names, size in [('a**2 + 3.0*a*b', ['a', 'b'], 3), ('a*a*b', ['a', 'b'], 2), ('a**3 - b**2', ['a', 'b'], 2)]:
        jobs.append(dict(fn='h_expr', params=dict(expr=e, names=names, size=size, opts='plain', detect='zeros')))
    for e, names, size in [('a*b + a**2', ['a', 'b'], 3), ('a*a*b', ['a', 'b'], 2)]:
        jobs.append(dict(fn='h_expr', params=dict(expr=e, names=names, size=size, opts='plain', detect='some_zeros')))
    # the public complex_stepsize attribute changed after construction
    jobs.append(dict(fn='h_expr', params=dict(expr='a**2 + 3.0*a*b', names=['a', 'b'], size=2, opts='plain', cstep=1e-30)))
    jobs.append(dict(fn='h_expr', params=dict(expr='a**3 - b', names=['a', 'b'], size=1, opts='plain', cstep=1e-30)))
    jobs.append(dict(fn='h_multi', params={}))
    return jobs


def _install(ctx):
    if ctx.sym:
        from symx import stubs
        import openmdao.utils.general_utils as GU
        import openmdao.core.system as SY
        import openmdao.components.exec_comp as EC
        stubs.install_float(GU, SY, EC)
        EC.complex = stubs.PassComplex


def _eval(expr, vals, xp):
    env = dict(vals)
    env.update(sum=lambda x: np.asarray(x, dtype=object).sum() if xp is not np else np.sum(x), dot=lambda x, y: (np.asarray(x) * np.asarray(y)).sum())
    return eval(expr, {'__builtins__': {}}, env)


def _outshape(expr, names, size):
    probe = {n: np.ones(size) for n in names}
    return np.shape(eval(expr, {'__builtins__': {}}, dict(probe, sum=np.sum, dot=np.dot)))


def h_expr(ctx, expr, names, size, opts, detect='generic', cstep=None):
    _install(ctx)
    oshape = _outshape(expr, names, size)
    kw = {n: dict(val=np.ones(size)) for n in names}
    kw['y'] = dict(val=np.ones(oshape if oshape else 1))
    ckw = {}
    if opts == 'diag':
        ckw['has_diag_partials'] = True
    if opts == 'shape_by_conn':
        kw = {n: dict(shape_by_conn=True, copy_shape=None) for n in names}
        kw['y'] = dict(copy_shape=names[0])
        for n in names:
            kw[n].pop('copy_shape')
    p = om.Problem()
    if opts == 'shape_by_conn':
        ivc = p.model.add_subsystem('ivc', om.IndepVarComp())
        for n in names:
            ivc.add_output(n, val=ctx.np.ones(size))
    comp = om.ExecComp('y = ' + expr, **ckw, **kw)
    p.model.add_subsystem('c', comp)
    if cstep is not None:
        comp.complex_stepsize = cstep
    if opts == 'shape_by_conn':
        for n in names:
            p.model.connect('ivc.' + n, 'c.' + n)
    if opts == 'coloring':
        comp.declare_coloring(wrt='*', method='cs', show_summary=False, show_sparsity=False)
    p.setup()
    p.final_setup()
    src = (lambda n: 'ivc.' + n) if opts == 'shape_by_conn' else (lambda n: 'c.' + n)
    # ExecComp detects the sparsity of array partials (and computes its coloring) from random perturbations at the point of its
    # first linearization; that detection is done here at a fixed generic point, as it would be in a user's first run
    for k, n in enumerate(names):
        if detect == 'zeros':       # a first linearization at the origin (where many partials vanish) must not lose entries
            p.set_val(src(n), ctx.consts([0.0] * size))
        elif detect == 'some_zeros':    # ... nor at a point where only some entries are exactly zero
            p.set_val(src(n), ctx.consts([0.0 if (j + k) % 2 == 0 else 0.37 + 0.61 * j - 0.9 * k for j in range(size)]))
        else:
            p.set_val(src(n), ctx.consts([0.37 + 0.61 * j - 0.9 * k for j in range(size)]))
    p.run_model()
    p.compute_totals(of=['c.y'], wrt=[src(n) for n in names])
    vals = {n: ctx.reals(n, size, -3, 3) for n in names}
    for n in names:
        p.set_val(src(n), vals[n])
    p.run_model()
    y = np.array(np.asarray(p.get_val('c.y')).reshape(-1))      # a copy: the finite-difference reruns of the float replay overwrite the output vector
    want = np.asarray(_eval(expr, vals, ctx.np), dtype=object if ctx.sym else float).reshape(-1)
    ctx.eq('value', y, want, 1e-12)
    J = p.compute_totals(of=['c.y'], wrt=[src(n) for n in names], return_format='flat_dict')
    for n in names:
        def fd(delta, n=n):
            for m in names:
                a = np.array(vals[m], dtype=float).copy()
                if m == n:
                    a = a + np.asarray(delta).reshape(a.shape)
                p.set_val(src(m), a)
            p.run_model()
            r = np.asarray(p.get_val('c.y'), dtype=float).reshape(-1).copy()
            for m in names:
                p.set_val(src(m), vals[m])
            return r
        ctx.deriv_matrix(f'dy/d{n}', J['c.y', src(n)], y, np.asarray(vals[n]).reshape(-1), fd, 1e-12)
    ctx.observe('y', y)


def h_multi(ctx):
    """several expressions sharing inputs, one output feeding nothing, constants"""
    _install(ctx)
    p = om.Problem()
    p.model.add_subsystem('c', om.ExecComp(['y1 = k * a * b', 'y2 = a**2 - b', 'y3 = sum(a) * b'], a=np.ones(2), b=np.ones(2), y1=np.ones(2), y2=np.ones(2), y3=np.ones(2),
                                           k={'val': 2.5, 'constant': True}))
    p.setup()
    p.final_setup()
    p.set_val('c.a', ctx.consts([0.37, -1.2]))
    p.set_val('c.b', ctx.consts([2.1, 0.8]))
    p.run_model()
    p.compute_totals(of=['c.y1', 'c.y2', 'c.y3'], wrt=['c.a', 'c.b'])
    a, b = ctx.reals('a', 2, -3, 3), ctx.reals('b', 2, -3, 3)
    p.set_val('c.a', a)
    p.set_val('c.b', b)
    p.run_model()
    ctx.eq('y1', p.get_val('c.y1'), 2.5 * a * b)
    ctx.eq('y2', p.get_val('c.y2'), a * a - b)
    ctx.eq('y3', p.get_val('c.y3'), (a[0] + a[1]) * b)
    J = p.compute_totals(of=['c.y1', 'c.y2', 'c.y3'], wrt=['c.a', 'c.b'], return_format='flat_dict')
    outs = {'y1': 2.5 * a * b, 'y2': a * a - b, 'y3': (a[0] + a[1]) * b}
    for o, term in outs.items():
        for n, v in (('a', a), ('b', b)):
            def fd(delta, o=o, n=n):
                p.set_val('c.a', np.array(a, dtype=float) + (np.asarray(delta) if n == 'a' else 0))
                p.set_val('c.b', np.array(b, dtype=float) + (np.asarray(delta) if n == 'b' else 0))
                p.run_model()
                r = np.asarray(p.get_val('c.' + o), dtype=float).copy()
                p.set_val('c.a', a)
                p.set_val('c.b', b)
                return r
            ctx.deriv_matrix(f'd{o}/d{n}', J['c.' + o, 'c.' + n], np.asarray(p.get_val('c.' + o)).reshape(-1), v, fd, 1e-12)
    p.run_model()
    ctx.observe('y1', p.get_val('c.y1'))
