"""C26 Stock math components compute their formulas and exact partials."""
import numpy as np
import openmdao.api as om

LEVEL = 'model_checking'
EXPLANATION = ('Each stock component is instantiated in a real Problem for an enumerated option set (vec_size, length/shape, axis, scaling '
               'factors, units metadata, use_mult/normalize, several equations per component), its inputs (and, for implicit ones, '
               'its states) are symbolic reals; outputs/residuals must equal the formula written independently from the component '
               'documentation, and the partials obtained through the framework (declare_partials rows/cols -> Subjac -> compute_totals '
               'in fwd and rev, or linearize + the component jacobian for implicit components) must equal the chain-rule derivative '
               'of the returned terms.')
BOUNDS = dict(vec_size='<= 3', length='<= 3', matrices='<= 3x3', options='enumerated per component (see harnesses())')
STUBS = ['sqrt as an atom (VectorMagnitudeComp)', 'module-global float pass-through in general_utils/system']
ASSUMPTIONS = ['reals', 'VectorMagnitudeComp: nonzero vector (the derivative is undefined at 0)']
OUTSIDE = ['LinearSystemComp.solve_nonlinear/solve_linear (LAPACK LU)', 'SplineComp (C16)', 'unit conversion at connections (C04)', 'complex inputs']


def harnesses(tier, seed):
    q = tier == 'quick'
    J = []
    for vec, length in ((1, 1), (2, 3)) if q else ((1, 1), (2, 3), (3, 2), (1, 3)):
        for sf in ('default', 'mixed'):
            J.append(dict(fn='h_addsub', params=dict(vec=vec, length=length, sf=sf)))
    for vec, shape, axis in ((2, [3], 0), (3, [2, 2], 1)) if q else ((2, [3], 0), (3, [2, 2], 1), (2, [2, 3], 2), (2, [2], 1)):
        J.append(dict(fn='h_mux', params=dict(vec=vec, shape=shape, axis=axis)))
    for vec, length in ((1, 3), (2, 2)) if q else ((1, 3), (2, 2), (3, 3), (2, 1)):
        J.append(dict(fn='h_dot', params=dict(vec=vec, length=length)))
        J.append(dict(fn='h_mag', params=dict(vec=vec, length=length)))
    for vec in (1, 2) if q else (1, 2, 3):
        J.append(dict(fn='h_cross', params=dict(vec=vec)))
    for vec, shp in ((1, [2, 3]), (2, [3, 3])) if q else ((1, [2, 3]), (2, [3, 3]), (3, [2, 2]), (2, [1, 3])):
        J.append(dict(fn='h_matvec', params=dict(vec=vec, shape=shp)))
    for use_mult in (False, True):
        for normalize in (False, True):
            for n in (1, 2):
                J.append(dict(fn='h_eq', params=dict(n=n, use_mult=use_mult, normalize=normalize), max_paths=20000))
                J.append(dict(fn='h_balance', params=dict(n=n, use_mult=use_mult, normalize=normalize), max_paths=20000))
    for n, vec in ((2, 1), (3, 1), (2, 2)) if q else ((2, 1), (3, 1), (2, 2), (3, 2)):
        J.append(dict(fn='h_linsys', params=dict(n=n, vec=vec)))
    return J


def _install(ctx):
    if ctx.sym:
        from symx import stubs
        import openmdao.utils.general_utils as GU
        import openmdao.core.system as SY
        stubs.install_float(GU, SY)
        from symx import sparse
        sparse.install()


def _explicit(ctx, comp, ins, formula, modes=('fwd', 'rev'), lo=-5, hi=5, tol=0, assume=None):
    """ins: {name: shape}.  formula(vals) -> {out_name: array-like}.  Values and totals in both modes."""
    _install(ctx)
    vals = None
    for mode in modes:
        p = om.Problem()
        p.model.add_subsystem('c', comp() if callable(comp) else comp)
        p.setup(mode=mode)
        if ctx.sym:
            from symx import sparse
            sparse.convert_declared(p.model)
        p.final_setup()
        if vals is None:
            vals = {k: ctx.reals(k, shp, lo, hi) for k, shp in ins.items()}
            if assume:
                assume(vals)
        for k, v in vals.items():
            p.set_val('c.' + k, v)
        p.run_model()
        want = formula(vals)
        outs = {}
        for o, w in want.items():
            got = p.get_val('c.' + o)
            if mode == modes[0]:
                ctx.eq(f'value[{o}]', got, np.asarray(w, dtype=object if ctx.sym else float).reshape(np.shape(got)), tol)
            outs[o] = got
        of = ['c.' + o for o in want]
        wrt = ['c.' + k for k in ins]
        J = p.compute_totals(of=of, wrt=wrt, return_format='flat_dict')
        for o in want:
            for k in ins:
                def fd(delta, o=o, k=k):
                    for kk, v in vals.items():
                        a = np.array(v, dtype=float).copy()
                        if kk == k:
                            a = a + np.asarray(delta).reshape(a.shape)
                        p.set_val('c.' + kk, a)
                    p.run_model()
                    r = np.asarray(p.get_val('c.' + o), dtype=float).reshape(-1).copy()
                    for kk, v in vals.items():
                        p.set_val('c.' + kk, v)
                    return r
                ctx.deriv_matrix(f'{mode}:d{o}/d{k}', J['c.' + o, 'c.' + k], np.asarray(outs[o]).reshape(-1), np.asarray(vals[k]).reshape(-1), fd, tol)
    ctx.observe('out', [np.asarray(v) for v in outs.values()])
    return vals


def h_addsub(ctx, vec, length, sf):
    from fractions import Fraction as Fr
    names = ['a', 'b', 'c']
    sfs = None if sf == 'default' else [2.5, -1.0, 0.5]
    shape = (vec,) if length == 1 else (vec, length)

    def comp():
        c = om.AddSubtractComp()
        c.add_equation('s', names, vec_size=vec, length=length, scaling_factors=sfs, units='m')
        c.add_equation('t', ['a', 'd'], vec_size=vec, length=length, scaling_factors=[1, -1], units='m')
        return c
    k = sfs or [1, 1, 1]
    _explicit(ctx, comp, {n: shape for n in names + ['d']},
              lambda v: {'s': k[0] * v['a'] + k[1] * v['b'] + k[2] * v['c'], 't': v['a'] - v['d']})


def h_mux(ctx, vec, shape, axis):
    shape = tuple(shape)

    def comp():
        c = om.MuxComp(vec_size=vec)
        c.add_var('x', shape=shape, axis=axis, units='m')
        return c
    ins = {f'x_{i}': shape for i in range(vec)}
    _explicit(ctx, comp, ins, lambda v: {'x': np.stack([np.asarray(v[f'x_{i}'], dtype=object if ctx.sym else float) for i in range(vec)], axis=axis)})


def h_demux(ctx, vec, shape, axis):
    shape = tuple(shape)
    full = list(shape)
    full.insert(axis, vec)
    full = tuple(full)

    def comp():
        from openmdao.components.demux_comp import DemuxComp
        c = DemuxComp(vec_size=vec)
        c.add_var('x', shape=full, axis=axis)
        return c

    def formula(v):
        a = np.asarray(v['x'], dtype=object if ctx.sym else float)
        return {f'x_{i}': np.take(a, i, axis=axis) for i in range(vec)}
    _explicit(ctx, comp, {'x': full}, formula)


def h_dot(ctx, vec, length):
    def comp():
        c = om.DotProductComp(vec_size=vec, length=length, a_name='u', b_name='v', c_name='w', a_units='m', b_units='N', c_units='J')
        c.add_product('w2', a_name='u', b_name='z', a_units='m', vec_size=vec, length=length)
        return c

    def formula(v):
        return {'w': [sum(v['u'][i, j] * v['v'][i, j] for j in range(length)) for i in range(vec)],
                'w2': [sum(v['u'][i, j] * v['z'][i, j] for j in range(length)) for i in range(vec)]}
    _explicit(ctx, comp, {'u': (vec, length), 'v': (vec, length), 'z': (vec, length)}, formula)


def h_cross(ctx, vec):
    def comp():
        return om.CrossProductComp(vec_size=vec, a_name='r', b_name='F', c_name='M', a_units='m', b_units='N', c_units='N*m')

    def formula(v):
        a, b = v['r'], v['F']
        return {'M': [[a[i, 1] * b[i, 2] - a[i, 2] * b[i, 1], a[i, 2] * b[i, 0] - a[i, 0] * b[i, 2], a[i, 0] * b[i, 1] - a[i, 1] * b[i, 0]]
                      for i in range(vec)]}
    _explicit(ctx, comp, {'r': (vec, 3), 'F': (vec, 3)}, formula)


def h_matvec(ctx, vec, shape):
    m, n = shape

    def comp():
        return om.MatrixVectorProductComp(vec_size=vec, A_shape=(m, n), A_name='A', x_name='x', b_name='b')

    def formula(v):
        A, x = v['A'], v['x']
        if vec == 1 and np.ndim(x) == 1:
            return {'b': [sum(A[0, r, k] * x[k] for k in range(n)) for r in range(m)]}
        return {'b': [[sum(A[i, r, k] * x[i, k] for k in range(n)) for r in range(m)] for i in range(vec)]}
    _explicit(ctx, comp, {'A': (vec, m, n), 'x': (vec, n)}, formula)


def h_mag(ctx, vec, length):
    def comp():
        return om.VectorMagnitudeComp(vec_size=vec, length=length, in_name='r', mag_name='m', units='m')
    _install(ctx)
    p = om.Problem()
    p.model.add_subsystem('c', comp())
    p.setup()
    p.final_setup()
    r = ctx.reals('r', (vec, length), -5, 5)
    for i in range(vec):
        ctx.assume(sum(r[i, j] * r[i, j] for j in range(length)) > 0)
    p.set_val('c.r', r)
    p.run_model()
    mval = np.asarray(p.get_val('c.m')).reshape(-1)
    J = np.asarray(p.compute_totals(of=['c.m'], wrt=['c.r'], return_format='array'))
    for i in range(vec):
        s2 = sum(r[i, j] * r[i, j] for j in range(length))
        if ctx.sym:
            ctx.check(f'nonneg[{i}]', mval[i] >= 0)
            ctx.eq(f'square[{i}]', mval[i] * mval[i], s2)
        else:
            ctx.eq(f'value[{i}]', mval[i], float(np.sqrt(s2)))
        for i2 in range(vec):
            for j in range(length):
                # d m_i / d r_i2j = r_ij / m_i  (0 across rows); stated multiplied out so that it stays polynomial in the atom
                want = r[i, j] if i == i2 else 0 * r[i, j]
                ctx.eq(f'dm{i}/dr[{i2},{j}]*m', J[i, i2 * length + j] * mval[i], want)
    ctx.observe('m', mval)


def _scale(ctx, rhs, normalize):
    """documented normalisation: 1/|rhs| when |rhs| >= 2, else 1/(rhs^2/4 + 1)"""
    if not normalize:
        return 1
    big = (rhs >= 2) | (rhs <= -2) if ctx.sym else (abs(rhs) >= 2)
    if bool(big):
        return 1 / (rhs if bool(rhs > 0) else -rhs)
    return 1 / (rhs * rhs / 4 + 1)


def h_eq(ctx, n, use_mult, normalize):
    def comp():
        c = om.EQConstraintComp()
        c.add_eq_output('y', val=np.ones(n), use_mult=use_mult, normalize=normalize, add_constraint=False, units='m')
        return c
    ins = {'lhs:y': (n,), 'rhs:y': (n,)}
    if use_mult:
        ins['mult:y'] = (n,)

    def formula(v):
        out = []
        for i in range(n):
            l, r = v['lhs:y'][i], v['rhs:y'][i]
            mlt = v['mult:y'][i] if use_mult else 1
            out.append((mlt * l - r) * _scale(ctx, r, normalize))
        return {'y': out}
    _explicit(ctx, comp, ins, formula, modes=('fwd',), tol=0)


def _implicit(ctx, comp, ins, states, resid_formula):
    """implicit component: residuals == formula(inputs, states) and linearize == chain-rule derivative"""
    _install(ctx)
    p = om.Problem()
    p.model.add_subsystem('c', comp)
    p.setup()
    if ctx.sym:
        from symx import sparse
        sparse.convert_declared(p.model)
    p.final_setup()
    vals = {k: ctx.reals(k.replace(':', '_'), shp, -5, 5) for k, shp in ins.items()}
    sv = {k: ctx.reals('s_' + k, shp, -5, 5) for k, shp in states.items()}
    for k, v in vals.items():
        p.set_val('c.' + k, v)
    for k, v in sv.items():
        p.set_val('c.' + k, v)
    c = p.model.c
    c.run_apply_nonlinear()
    want = resid_formula(vals, sv)
    res = {}
    for o, w in want.items():
        got = np.asarray(c._residuals[o]).reshape(-1).copy()
        ctx.eq(f'residual[{o}]', got, np.asarray(w, dtype=object if ctx.sym else float).reshape(-1))
        res[o] = got
    c.run_linearize()
    jac = {k: np.asarray(sj.todense()) for k, sj in c._jacobian._subjacs.items()}
    allv = dict(vals)
    allv.update(sv)
    for o in want:
        for k, v in allv.items():
            key = ('c.' + o, 'c.' + k)
            Jk = jac.get(key)
            n_o, n_k = res[o].size, int(np.prod(np.shape(v)))
            if Jk is None:
                Jk = (ctx.zeros((n_o, n_k)) if ctx.sym else np.zeros((n_o, n_k)))

            def fd(delta, o=o, k=k):
                for kk, vv in allv.items():
                    a = np.array(vv, dtype=float).copy()
                    if kk == k:
                        a = a + np.asarray(delta).reshape(a.shape)
                    p.set_val('c.' + kk, a)
                c.run_apply_nonlinear()
                r = np.asarray(c._residuals[o], dtype=float).reshape(-1).copy()
                for kk, vv in allv.items():
                    p.set_val('c.' + kk, vv)
                return r
            ctx.deriv_matrix(f'dR[{o}]/d{k}', Jk, res[o], np.asarray(v).reshape(-1), fd)
    ctx.observe('res', [np.asarray(v) for v in res.values()])


def h_balance(ctx, n, use_mult, normalize):
    c = om.BalanceComp()
    c.add_balance('x', val=np.ones(n), use_mult=use_mult, normalize=normalize, units='m', eq_units='N')
    ins = {'lhs:x': (n,), 'rhs:x': (n,)}
    if use_mult:
        ins['mult:x'] = (n,)

    def formula(v, s):
        out = []
        for i in range(n):
            l, r = v['lhs:x'][i], v['rhs:x'][i]
            mlt = v['mult:x'][i] if use_mult else 1
            out.append((mlt * l - r) * _scale(ctx, r, normalize))
        return {'x': out}
    _implicit(ctx, c, ins, {'x': (n,)}, formula)


def h_linsys(ctx, n, vec):
    c = om.LinearSystemComp(size=n, vec_size=vec)
    xs = (vec, n) if vec > 1 else (n,)

    def formula(v, s):
        A, b, x = v['A'], v['b'], s['x']
        if vec > 1:
            return {'x': [[sum(A[r, k] * x[i, k] for k in range(n)) - b[i, r] for r in range(n)] for i in range(vec)]}
        return {'x': [sum(A[r, k] * x[k] for k in range(n)) - b[r] for r in range(n)]}
    _implicit(ctx, c, {'A': (n, n), 'b': xs}, {'x': xs}, formula)
