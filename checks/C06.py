"""C06 Unit conversion is a consistent affine algebra."""
import random
from fractions import Fraction

import numpy as np
import openmdao.utils.units as U
from openmdao.utils.units import PhysicalUnit

LEVEL = 'model_checking'
EXPLANATION = ('PhysicalUnit.conversion_tuple_to/is_compatible/__mul__/__div__/__rdiv__/__pow__/__eq__ executed on units '
               'constructed directly with symbolic factor (>0), symbolic offset and symbolic integer powers, so the laws '
               '(round trip, A->B->C == A->C, TypeError iff powers differ, compatibility is an equivalence, product/'
               'quotient/power factors) are decided for every unit the algebra can hold; convert_units/unit_conversion/'
               'simplify_unit on the shipped library (every compatible pair) and on generated composite/prefixed '
               'expressions with a symbolic value, against an independent exact-rational evaluation of the expression.')
BOUNDS = dict(symbolic_units='3 units, factor>0 and offset real, 3 of the 13 powers symbolic integers in [-2,2] (the rest concrete)',
              library_pairs='quick: seeded sample of 220 compatible pairs + every offset-unit pair; thorough: every ordered compatible pair and 400 triples',
              expressions='generated products/quotients/integer powers of <= 3 library units with SI prefixes (quick 60, thorough 400)',
              value='symbolic real in [-1e6, 1e6]')
STUBS = ['module-global float in openmdao.utils.units -> pass-through for proxies']
ASSUMPTIONS = ['factors > 0 (every library unit)', 'value is a real; library factors are the exact rationals of their float64 constants, '
               'identities that multiply several of them hold within 1e-12*(1+|x|max)']
OUTSIDE = ['the regex/eval parsing of arbitrary (symbolic) strings: expression strings are concrete, enumerated', 'NumberDict name bookkeeping beyond simplify_unit round trips',
           'fractional powers', 'user-added units']


def harnesses(tier, seed):
    q = tier == 'quick'
    jobs = [dict(fn='h_algebra', params=dict(case=c), max_paths=60000, wall_s=600 if q else 2400) for c in ('convert', 'compat', 'muldiv', 'pow')]
    classes = _classes()
    rng = random.Random(seed)
    pairs = []
    for key, names in classes.items():
        for a in names:
            for b in names:
                if a != b:
                    pairs.append((a, b))
    offs = [p for p in pairs if _has_offset(p[0]) or _has_offset(p[1])]
    if q:
        rest = [p for p in pairs if p not in set(offs)]
        rng.shuffle(rest)
        sel = offs + rest[:220]
    else:
        sel = pairs
    chunk = 60 if q else 150
    for i in range(0, len(sel), chunk):
        jobs.append(dict(fn='h_library_pairs', params=dict(pairs=sel[i:i + chunk])))
    triples = []
    keys = [k for k, v in classes.items() if len(v) >= 3]
    for _ in range(60 if q else 400):
        k = rng.choice(keys)
        triples.append(rng.sample(classes[k], 3))
    for i in range(0, len(triples), 100):
        jobs.append(dict(fn='h_library_triples', params=dict(triples=triples[i:i + 100])))
    exprs = _gen_exprs(rng, 60 if q else 400)
    for i in range(0, len(exprs), 100):
        jobs.append(dict(fn='h_expressions', params=dict(exprs=exprs[i:i + 100])))
    return jobs


def _install(ctx):
    if ctx.sym:
        from symx import stubs
        stubs.install_float(U)


def _lib_names():
    return sorted(n for n, u in U._UNIT_LIB.unit_table.items() if isinstance(u, PhysicalUnit))


def _classes():
    out = {}
    for n in _lib_names():
        u = U._UNIT_LIB.unit_table[n]
        out.setdefault(tuple(u._powers), []).append(n)
    return {k: v for k, v in out.items() if len(v) > 1}


def _has_offset(n):
    return U._UNIT_LIB.unit_table[n]._offset != 0


# ------------------------------------------------------------------ symbolic algebra
def _sym_unit(ctx, tag, with_offset=True):
    f = ctx.real('f' + tag)
    ctx.assume(f > 0)
    d = ctx.real('d' + tag) if with_offset else ctx.const(0)
    pw = [ctx.integer(f'p{tag}{k}', -2, 2) for k in range(3)] + ([0, 1, 0, -1, 0, 0] + [0] * 20)[:len(U._UNIT_LIB.unit_table['m']._powers) - 3]
    u = PhysicalUnit(tag, f, pw, d)
    return u, f, d, pw


def _same(pa, pb):
    c = True
    for a, b in zip(pa, pb):
        c = c & (a == b)
    return c


def _bool(ctx, x):
    return x


def h_algebra(ctx, case):
    _install(ctx)
    x = ctx.real('x', -10**6, 10**6)
    if case == 'convert':
        A, fa, da, pa = _sym_unit(ctx, 'A')
        B, fb, db, pb = _sym_unit(ctx, 'B')
        C, fc, dc, pc = _sym_unit(ctx, 'C')
        e = ctx.raises(TypeError, A.conversion_tuple_to, B)
        same = all(bool(a == b) for a, b in zip(pa, pb))
        ctx.check('typeerror_iff_incompatible', (e is not None) == (not same))
        ctx.check('is_compatible_decides', bool(A.is_compatible(B)) == same)
        if e is None:
            f, o = ctx.last
            # definition through base units: ((x + dA) * fA) / fB - dB
            ctx.eq('definition', (x + o) * f, (x + da) * fa / fb - db)
            f2, o2 = B.conversion_tuple_to(A)
            ctx.eq('round_trip', ((x + o) * f + o2) * f2, x)
            e2 = ctx.raises(TypeError, B.conversion_tuple_to, C)
            if e2 is None:
                g, p = ctx.last
                h, r = A.conversion_tuple_to(C)
                ctx.eq('composition', ((x + o) * f + p) * g, (x + r) * h)
            f3, o3 = A.conversion_tuple_to(A)
            ctx.eq('identity', (x + o3) * f3, x)
        ctx.observe('same', same)
    elif case == 'compat':
        A, fa, da, pa = _sym_unit(ctx, 'A')
        B, fb, db, pb = _sym_unit(ctx, 'B')
        C, fc, dc, pc = _sym_unit(ctx, 'C')
        ab, ba, bc, ac = (bool(A.is_compatible(B)), bool(B.is_compatible(A)), bool(B.is_compatible(C)), bool(A.is_compatible(C)))
        ctx.check('reflexive', bool(A.is_compatible(A)))
        ctx.check('symmetric', ab == ba)
        ctx.check('transitive', (not (ab and bc)) or ac)
        # compatibility exactly decides whether conversion succeeds, in both directions
        ctx.check('decides_AB', (ctx.raises(TypeError, A.conversion_tuple_to, B) is None) == ab)
        ctx.check('decides_BA', (ctx.raises(TypeError, B.conversion_tuple_to, A) is None) == ab)
        ctx.check('decides_AC', (ctx.raises(TypeError, A.conversion_tuple_to, C) is None) == ac)
        # equality is consistent with conversion being the identity
        if bool(A == B):
            f, o = A.conversion_tuple_to(B)
            ctx.eq('equal_units_identity', (x + o) * f, x)
    elif case == 'muldiv':
        A, fa, da, pa = _sym_unit(ctx, 'A')
        B, fb, db, pb = _sym_unit(ctx, 'B')
        for nm, op, ff, pf in (('mul', lambda a, b: a * b, lambda a, b: a * b, lambda a, b: a + b),
                               ('div', lambda a, b: a / b, lambda a, b: a / b, lambda a, b: a - b)):
            e = ctx.raises(TypeError, op, A, B)
            has_off = bool(da != 0) or bool(db != 0)
            ctx.check(f'{nm}:refuses_offset_units', (e is not None) == has_off)
            if e is None:
                P = ctx.last
                ctx.eq(f'{nm}:factor', P._factor, ff(fa, fb))
                ctx.eq(f'{nm}:offset', P._offset, 0 * fa)
                for k in range(len(pa)):
                    ctx.check(f'{nm}:power[{k}]', P._powers[k] == pf(pa[k], pb[k]))
                # value semantics: converting the compound unit to a compound of rescaled parts
                A2 = PhysicalUnit('A2', fa * 3, pa, 0)
                P2 = op(A2, B)
                f, o = P.conversion_tuple_to(P2)
                ctx.eq(f'{nm}:rescale_part', (x + o) * f, x / 3 if nm == 'mul' else x / 3)
        e = ctx.raises(TypeError, lambda: 5 / A)
        ctx.check('rdiv:ok', e is None)
        if e is None:
            R = ctx.last
            ctx.eq('rdiv:factor', R._factor, 5 / fa)
            for k in range(len(pa)):
                ctx.check(f'rdiv:power[{k}]', R._powers[k] == -pa[k])
        if not bool(da != 0):
            # (scalar * offset-unit is refused too, but while formatting the TypeError message the code trips on
            # other.name(); which exception type a refused operation raises is not part of the property)
            e = ctx.raises(TypeError, lambda: A * 4)
            ctx.check('scalar_mul:ok', e is None)
            ctx.eq('scalar_mul:factor', ctx.last._factor, fa * 4)
    elif case == 'pow':
        A, fa, da, pa = _sym_unit(ctx, 'A')
        for k in (-2, -1, 0, 1, 2, 3):
            e = ctx.raises(TypeError, lambda: A ** k)
            ctx.check(f'pow{k}:refuses_offset', (e is not None) == bool(da != 0))
            if e is None:
                Q = ctx.last
                ctx.eq(f'pow{k}:factor', Q._factor, fa ** k if k >= 0 else 1 / fa ** (-k))
                for j in range(len(pa)):
                    ctx.check(f'pow{k}:power[{j}]', Q._powers[j] == pa[j] * k)
        if not bool(da != 0):
            ctx.check('pow:mul_consistent', bool((A ** 2) == (A * A)))


# ------------------------------------------------------------------ shipped library
def _exact(name):
    u = U._UNIT_LIB.unit_table[name]
    return Fraction(u._factor), Fraction(u._offset)


TOL = 1e-12
NB = len(U._UNIT_LIB.unit_table['m']._powers)     # number of base dimensions in this library


def h_library_pairs(ctx, pairs):
    _install(ctx)
    x = ctx.real('x', -10**6, 10**6)
    for a, b in pairs:
        y = U.convert_units(x, a, b)
        back = U.convert_units(y, b, a)
        ctx.eq(f'round_trip[{a}->{b}]', back, x, TOL)
        fa, da = _exact(a)
        fb, db = _exact(b)
        # definition via base units, in exact rationals of the library's own constants
        want = (x + ctx.const(da)) * ctx.const(fa / fb) - ctx.const(db)
        ctx.eq(f'definition[{a}->{b}]', y, want, TOL)
        ctx.check(f'compatible[{a},{b}]', bool(U.is_compatible(a, b)) and bool(U.is_compatible(b, a)))
        f, o = U.unit_conversion(a, b)
        ctx.eq(f'unit_conversion[{a}->{b}]', (x + o) * f, y)
    ctx.observe('last', y)


def h_library_triples(ctx, triples):
    _install(ctx)
    x = ctx.real('x', -10**6, 10**6)
    for a, b, c in triples:
        ctx.eq(f'triangle[{a},{b},{c}]', U.convert_units(U.convert_units(x, a, b), b, c), U.convert_units(x, a, c), TOL)
    # incompatible units never convert, compatible ones always do: one representative per pair of classes
    cl = list(_classes().items())
    for i in range(0, len(cl) - 1, 3):
        a, b = cl[i][1][0], cl[i + 1][1][0]
        e = ctx.raises(TypeError, U.convert_units, x, a, b)
        ctx.check(f'incompatible_raises[{a},{b}]', e is not None and not U.is_compatible(a, b))
    ctx.observe('n', len(triples))


_PREFIX_OK = ['k', 'm', 'c', 'M', 'u', 'G', 'n', 'da', 'd', 'h']
_ATOMS = ['m', 's', 'kg', 'N', 'J', 'W', 'Pa', 'ft', 'inch', 'lbf', 'lbm', 'h', 'min', 'mi', 'L', 'g', 'A', 'V', 'Hz', 'rad', 'deg', 'bar', 'psi', 'Btu', 'hp', 'K', 'degR']


def _gen_exprs(rng, n):
    """expression trees: list of (prefix|'' , atom, power) with '*' or '/' between terms"""
    lib = set(_lib_names())
    atoms = [a for a in _ATOMS if a in lib]
    out = []
    while len(out) < n:
        terms = []
        for t in range(rng.randint(1, 3)):
            a = rng.choice(atoms)
            pre = rng.choice(_PREFIX_OK) if rng.random() < 0.5 else ''
            if pre and (pre + a) in lib:
                pre = ''          # e.g. 'min' + ... : a library name shadows the prefixed reading
            pw = rng.choice([1, 1, 1, 2, 3, -1, -2])
            op = rng.choice(['*', '/']) if t else '*'
            terms.append([op, pre, a, pw])
        out.append(terms)
    return out


def _expr_str(terms):
    s = ''
    for k, (op, pre, a, pw) in enumerate(terms):
        piece = pre + a + (f'**{pw}' if pw != 1 else '')
        s = piece if k == 0 else s + op + piece
    return s


def _expr_exact(terms):
    """(factor, powers) implied by the parts: product of prefix*atom factors raised to +-power"""
    f = Fraction(1)
    pw9 = [0] * NB
    for op, pre, a, pw in terms:
        u = U._UNIT_LIB.unit_table[a]
        base = Fraction(u._factor) * (Fraction(U._UNIT_LIB.prefixes[pre]) if pre else 1)
        e = pw if op == '*' else -pw
        f *= base ** e
        for k in range(NB):
            pw9[k] += u._powers[k] * e
    return f, pw9


def h_expressions(ctx, exprs):
    _install(ctx)
    x = ctx.real('x', -10**6, 10**6)
    n_ok = 0
    for terms in exprs:
        s = _expr_str(terms)
        u = U._find_unit(s)
        if u is None:
            ctx.check(f'parses[{s}]', False)
            continue
        f, pw9 = _expr_exact(terms)
        ctx.check(f'powers[{s}]', list(u._powers) == pw9)
        # the value of x [s] in base units is x * f, f = the product implied by the parts (relative comparison)
        off, fac = U.conversion_to_base_units(s)
        ctx.eq(f'factor[{s}]', (x + off) * fac * ctx.const(1 / f), x, TOL)
        # simplify_unit keeps dimension, factor and offset
        simp = U.simplify_unit(s)
        if simp is None:
            ctx.check(f'simplify_none_only_for_unity[{s}]', all(p == 0 for p in pw9) and f == 1)
        else:
            su = U._find_unit(simp)
            ctx.check(f'simplify_parses[{s}->{simp}]', su is not None)
            if su is not None:
                ctx.check(f'simplify_dimension[{s}->{simp}]', list(su._powers) == pw9)
                ctx.eq(f'simplify_value[{s}->{simp}]', U.convert_units(x, s, simp), x, TOL)
                ctx.check(f'simplify_offset[{s}->{simp}]', su._offset == u._offset)
        n_ok += 1
    ctx.observe('n', n_ok)
