"""C24 Relevance pruning is unobservable in results."""
import numpy as np
import openmdao.api as om
import openmdao.utils.relevance as REL

from progfam.library import LIBRARY, T, q22, q2s, q32
from progfam.core import Prog, In
from checks.C03 import h_problem_multi      # noqa: F401  (harness reused: colored totals with irrelevant components)

LEVEL = 'model_checking'
EXPLANATION = ('Differential symbolic run of the real framework: the same program (with dead branches, responses that do not depend '
               'on every design variable, several responses/design variables with indices, driver-declared and ad-hoc of/wrt, '
               'pre/post-optimisation components, linear block solvers on feed-forward groups) is executed with relevance enabled '
               'and with openmdao.utils.relevance._no_relevance = True (the documented OPENMDAO_NO_RELEVANCE switch); responses and '
               'total derivatives in fwd and rev, for every of/wrt subset and return format, must be the same terms for all inputs.')
BOUNDS = dict(programs='branches, chain3, diamond (+ library members in the thorough tier); variants with one group approximating its semi-totals by finite differences', call_orders='all of/wrt first | single pairs first, then growing sets', of_wrt='all declared, each single response, each single design variable, ad-hoc subsets',
              solvers='LinearRunOnce, LinearBlockGS with one sweep on feed-forward groups (exact there)')
STUBS = []
ASSUMPTIONS = ['reals']
OUTSIDE = ['LinearBlockJac / iterating linear solvers (their convergence loop compares symbolic norms: z3 nonlinear search does not finish)', 'optimizer iterations (SciPy); the driver-side use of relevance is covered through Driver._compute_totals and run_driver of the do-nothing driver',
           'parallel groups / MPI (parallel_deriv_color only changes seeding under MPI)']


def chain3():
    """a -> c1 -> c2 -> c3(f);  b -> d1(g);  side branch c2 -> side(h, not a response);  post component after the responses"""
    P = Prog('chain3')
    a = P.indep('a', (2,), kind='ivc')
    b = P.indep('b', (2,), kind='ivc')
    c1 = P.comp('c1', 'g1', {'x': In(a, shape=(2,))}, {'y': dict(shape=(2,))}, {'y': q22('x')}, 'dense')
    c2 = P.comp('c2', 'g1', {'x': In(c1['y'], shape=(2,), via='connect_local')}, {'y': dict(shape=(2,))}, {'y': q22('x')}, 'sparse')
    c3 = P.comp('c3', 'g2', {'u': In(c2['y'], shape=(2,))}, {'f': dict(shape=(1,))}, {'f': q2s('u')}, 'dense')
    d1 = P.comp('d1', 'g2', {'u': In(b, shape=(2,))}, {'g': dict(shape=(2,))}, {'g': q22('u')}, 'dense')
    side = P.comp('side', '', {'u': In(c2['y'], shape=(2,))}, {'h': dict(shape=(2,))}, {'h': q22('u')}, 'dense')
    post = P.comp('post', '', {'p': In(c3['f'], shape=(1,)), 'q': In(d1['g'], shape=(2,))}, {'r': dict(shape=(1,))},
                  {'r': [[T(1, ('p', 0, 1), ('q', 0, 1)), T(2, ('q', 1, 1))]]}, 'dense')
    P.ofs, P.wrts = [c3['f'].abs, d1['g'].abs], [a.abs, b.abs]
    P.desvars = [(a.abs, {}), (b.abs, dict(indices=[1]))]
    P.responses = [(c3['f'].abs, {}, 'obj'), (d1['g'].abs, dict(upper=0.0, indices=[0]), 'con')]
    P.extra = dict(side=side['h'].abs, post=post['r'].abs)
    P.features = ['dead side branch', 'post-opt component', 'response independent of a design variable', 'desvar/constraint indices']
    return P


def diamond():
    """a feeds two branches that re-join; one response uses only one branch"""
    P = Prog('diamond')
    a = P.indep('a', (2,), kind='ivc')
    l = P.comp('l', 'g', {'x': In(a, shape=(2,))}, {'y': dict(shape=(2,))}, {'y': q22('x')}, 'dense')
    r = P.comp('r', 'g', {'x': In(a, [([1, 0], True)], shape=(2,))}, {'y': dict(shape=(2,))}, {'y': q22('x')}, 'sparse')
    j = P.comp('j', '', {'p': In(l['y'], shape=(2,)), 'q': In(r['y'], shape=(2,))}, {'f': dict(shape=(1,))},
               {'f': [[T(1, ('p', 0, 1), ('q', 1, 1)), T(2, ('p', 1, 1)), T(-1, ('q', 0, 2))]]}, 'dense')
    k = P.comp('k', '', {'u': In(r['y'], [([1], True)], shape=(1,))}, {'h': dict(shape=(1,))}, {'h': [[T(1, ('u', 0, 2))]]}, 'dense')
    P.ofs, P.wrts = [j['f'].abs, k['h'].abs], [a.abs]
    P.desvars = [(a.abs, {})]
    P.responses = [(j['f'].abs, {}, 'obj'), (k['h'].abs, dict(lower=0.0), 'con')]
    P.extra = {}
    P.features = ['diamond', 'response using one branch']
    return P


PROGS = {'chain3': chain3, 'diamond': diamond, 'branches': LIBRARY['branches']}
SOLVERS = {'runonce': None, 'lnbgs': lambda: om.LinearBlockGS(maxiter=1, iprint=-1)}


def harnesses(tier, seed):
    q = tier == 'quick'
    jobs = []
    for prog in PROGS:
        for mode in ('fwd', 'rev'):
            for solver in (['runonce', 'lnbgs'] if q else list(SOLVERS)):
                jobs.append(dict(fn='h_diff', params=dict(prog=prog, mode=mode, solver=solver)))
    # a group that approximates its semi-totals (approx_totals) and totals asked for one response first, then for more
    for prog, grp in (('chain3', 'g2'),) if q else (('chain3', 'g2'), ('chain3', 'g1'), ('diamond', 'g')):
        for mode in ('fwd', 'rev'):
            jobs.append(dict(fn='h_diff', params=dict(prog=prog, mode=mode, solver='runonce', approx=grp, order='narrow_first')))
    for prog in PROGS:
        jobs.append(dict(fn='h_diff', params=dict(prog=prog, mode='fwd' if q else 'rev', solver='runonce', order='narrow_first')))
    for prog in PROGS:
        for mode in ('fwd', 'rev'):
            for solver in (('runonce',) if q else ('runonce', 'lnbgs')):
                jobs.append(dict(fn='h_diff', params=dict(prog=prog, mode=mode, solver=solver, cache=True)))
    # colored totals (bidirectional coloring: while a reverse color of one component's rows is solved the others are irrelevant)
    for kind in ('auto', 'bidir_subst'):
        jobs.append(dict(fn='h_problem_multi', params=dict(kind=kind, mode='auto', N=8)))
    if not q:
        for prog in ('basic', 'idx_flat', 'auto_units', 'promote_chain', 'ratio'):
            for mode in ('fwd', 'rev'):
                jobs.append(dict(fn='h_diff', params=dict(prog=prog, mode=mode, solver='runonce')))
    return jobs


def _make(prog):
    return PROGS[prog]() if prog in PROGS else LIBRARY[prog]()


def _run(ctx, prog, mode, solver, no_rel, vals=None, approx=None, order='all_first', cache=False):
    old = REL._no_relevance
    REL._no_relevance = no_rel
    try:
        P = _make(prog)
        if not getattr(P, 'desvars', None):
            P.desvars = [(w, {}) for w in P.wrts]
            P.responses = [(o, {}, 'obj' if k == 0 else 'con') for k, o in enumerate(P.ofs)]
            P.responses = [(o, kw if kind == 'obj' else dict(upper=0.0), kind) for o, kw, kind in P.responses]
        if cache:       # linear solutions cached per design variable (fwd) / response (rev) and reused as initial guesses
            P.desvars = [(n, dict(kw, cache_linear_solution=True)) for n, kw in P.desvars]
            P.responses = [(n, dict(kw, cache_linear_solution=True), kind) for n, kw, kind in P.responses]
        if solver != 'runonce':
            for g in {it[1] for it in P.items if it[0] == 'comp' and it[1]} | {''}:
                P.group_opts.setdefault(g, {})['linear_solver'] = SOLVERS[solver]
        if approx:
            P.pre_setup = lambda p, groups, comps: groups[approx].approx_totals(method='fd', step=2.0 ** -8)
        p = P.build(ctx, mode=mode)
        if vals is None:
            vals = P.set_indeps(ctx, p)
        else:
            for k, v in vals.items():
                p.set_val(k, v)
        p.run_model()
        res = {}
        names = list(P.ofs) + list(getattr(P, 'extra', {}).values())
        res['out'] = {n: p.get_val(n) for n in names}
        if order == 'all_first':
            res['J_all'] = p.compute_totals(of=P.ofs, wrt=P.wrts, return_format='flat_dict')
        else:       # single pairs first: every later call needs variables the earlier ones did not
            for o, w in zip(P.ofs, P.wrts):
                res[f'J_pair_{o}_{w}'] = p.compute_totals(of=[o], wrt=[w], return_format='flat_dict')
        for o in P.ofs:
            res['J_of_' + o] = p.compute_totals(of=[o], wrt=P.wrts, return_format='flat_dict')
        for w in P.wrts:
            res['J_wrt_' + w] = p.compute_totals(of=P.ofs, wrt=[w], return_format='flat_dict')
        if order != 'all_first':
            res['J_all'] = p.compute_totals(of=P.ofs, wrt=P.wrts, return_format='flat_dict')
        # driver-declared responses/design variables (indices applied), driver entry point
        res['J_driver'] = p.driver._compute_totals(return_format='flat_dict')
        # an ad-hoc response that is not a declared response (forces a different relevance graph)
        extra = getattr(P, 'extra', {})
        if 'side' in extra:
            res['J_side'] = p.compute_totals(of=[extra['side']], wrt=P.wrts, return_format='flat_dict')
        p.run_driver()
        res['out_after_driver'] = {n: p.get_val(n) for n in names}
        return res, vals, P
    finally:
        REL._no_relevance = old


def h_diff(ctx, prog, mode, solver, approx=None, order='all_first', cache=False):
    on, vals, P = _run(ctx, prog, mode, solver, False, approx=approx, order=order, cache=cache)
    off, _, _ = _run(ctx, prog, mode, solver, True, vals, approx=approx, order=order, cache=cache)
    tol = 1e-9 if P.uses_units() else 0
    for key in on:
        a, b = on[key], off[key]
        ctx.check('keys:' + key, set(a) == set(b))
        for k in a:
            if k in b:
                ctx.eq(f'{key}[{k}]', a[k], b[k], tol)
    # and both agree with the ground truth, so "both wrong in the same way" is excluded for the responses
    out, _, _ = P.reference(ctx, vals)
    for n, v in on['out'].items():
        ctx.eq('truth:' + n, v, out[n], tol)
    ctx.observe('J', [np.asarray(v) for v in on['J_all'].values()])
