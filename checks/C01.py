"""C01 Total derivatives equal the exact derivative of the converged model."""
import numpy as np
import openmdao.api as om

from progfam.library import LIBRARY, IMPLICIT

LEVEL = 'model_checking'
EXPLANATION = ('Problem.compute_totals of the real framework (TotalJacInfo, Group._linearize/_solve_linear, transfers, '
               'jacobians, DirectSolver with an exact-elimination LU stub) executed on symbolic input data for each member of '
               'the program family, in fwd and rev; every entry must equal the chain-rule derivative of the response term '
               'the model returned (explicit programs) or satisfy the implicit-function identities dR/ds.ds/dx + dR/dx = 0, '
               'df/dx = df/ds.ds/dx (implicit programs, arbitrary symbolic state); return formats must agree entry-wise.')
BOUNDS = dict(programs='progfam.library (11 explicit + 2 implicit); thorough adds seeded random members', modes='fwd, rev, auto',
              return_formats='array, dict, flat_dict', variable_size='<= 6', coupled_states='<= 2 (DirectSolver, dictionary and dense assembled jacobian)')
STUBS = ['scipy.linalg.lu_factor/lu_solve -> exact elimination with pivot branching (implicit programs)']
ASSUMPTIONS = ['nonsingular dR/ds (pivots nonzero on the explored paths)', 'reals; 1e-9 margins only where units differ']
OUTSIDE = ['SciPy LU/SuperLU kernels', 'iterative linear solvers on cycles', 'MPI', 'approximated totals (C12)', 'csc/csr assembled jacobians (quick tier)']


def harnesses(tier, seed):
    jobs = []
    for name in LIBRARY:
        for mode in ('fwd', 'rev'):
            jobs.append(dict(fn='h_explicit', params=dict(prog=name, mode=mode)))
    jobs.append(dict(fn='h_explicit', params=dict(prog='branches', mode='auto')))
    for name in IMPLICIT:
        for mode in ('fwd', 'rev'):
            jobs.append(dict(fn='h_implicit', params=dict(prog=name, mode=mode)))
    return jobs


def _flat(arrs):
    return np.concatenate([np.asarray(a, dtype=object).reshape(-1) for a in arrs])


def h_explicit(ctx, prog, mode):
    explicit_totals(ctx, LIBRARY[prog], mode)


def explicit_totals(ctx, make, mode, after_run=None):
    """shared with C08/C24: `make()` returns a fresh Prog; checks responses and totals of the built problem"""
    P = make()
    if ctx.sym and any('linear_solver' in o for o in P.group_opts.values()):
        from symx import stubs
        stubs.install_lu()
    # inexact float constants on the path: unit factors, and 1.0/(ref-ref0) of the reverse-mode input scaling
    tol = 1e-9 if (P.uses_units() or any('ref' in f for f in P.features)) else 0

    def run(delta=None):
        # (a Prog instance is built once: the finite-difference reruns of the float replay use fresh instances)
        p = (P if delta is None else make()).build(ctx, mode=mode)
        if delta is None:
            vals = P.set_indeps(ctx, p)
        else:
            vals = {}
            k = 0
            for v in P.indeps:
                n = int(np.prod(v.shape))
                a = base[v.abs] + np.asarray(delta[k:k + n]).reshape(v.shape)
                k += n
                p.set_val(v.abs, a)
                vals[v.abs] = a
        p.run_model()
        return p, vals
    p, base = run()
    if after_run is not None:
        after_run(P, p, base)
    outs = [p.get_val(o) for o in P.ofs]
    wrt_names = [v.abs for v in P.indeps if v.abs in P.wrts]
    assert wrt_names == P.wrts, (wrt_names, P.wrts)
    J = p.compute_totals(of=P.ofs, wrt=P.wrts, return_format='array')
    wr = _flat([base[w] for w in P.wrts])

    def fd(delta):
        full = np.zeros(sum(int(np.prod(v.shape)) for v in P.indeps))
        k = 0
        kk = 0
        for v in P.indeps:
            n = int(np.prod(v.shape))
            if v.abs in P.wrts:
                full[k:k + n] = delta[kk:kk + n]
                kk += n
            k += n
        p2, _ = run(full)
        return np.concatenate([np.asarray(p2.get_val(o), dtype=float).reshape(-1) for o in P.ofs])
    ctx.deriv_matrix('J', J, _flat(outs), wr, fd, tol)
    # the responses themselves equal the ground truth (so the oracle is not derived from a wrong run)
    ref_out, _, _ = P.reference(ctx, base)
    for o, got in zip(P.ofs, outs):
        ctx.eq('resp:' + o, got, ref_out[o], tol)
    # return formats agree entry-wise
    Jd = p.compute_totals(of=P.ofs, wrt=P.wrts, return_format='dict')
    Jf = p.compute_totals(of=P.ofs, wrt=P.wrts, return_format='flat_dict')
    r0 = 0
    for o, ov in zip(P.ofs, outs):
        nr = int(np.prod(np.shape(ov)))
        c0 = 0
        for w in P.wrts:
            nc = int(np.prod(np.shape(base[w])))
            blk = J[r0:r0 + nr, c0:c0 + nc]
            ctx.eq(f'dict[{o},{w}]', Jd[o][w], blk)
            ctx.eq(f'flat_dict[{o},{w}]', Jf[o, w], blk)
            c0 += nc
        r0 += nr
    ctx.observe('J', J)


def h_implicit(ctx, prog, mode):
    P = IMPLICIT[prog]()
    if ctx.sym:
        from symx import stubs
        stubs.install_lu()
    p = P.build(ctx, mode=mode)
    vals = P.set_indeps(ctx, p)
    sv = P.states[0]
    s = ctx.reals('s', sv.shape, -10, 10)
    p.set_val(sv.abs, s)
    p.run_model()
    # reference residual and downstream response as functions of (s, a)
    a = vals[P.wrts[0]]
    ref_out, _, resid = P.reference(ctx, vals, {sv.abs: s})
    R = resid[sv.abs]
    f = ref_out[P.ofs[0]]
    ns, na = s.size, a.size
    try:
        J = p.compute_totals(of=P.ofs, wrt=P.wrts, return_format='array')
    except (np.linalg.LinAlgError, RuntimeError) as err:
        if isinstance(err, RuntimeError) and 'ingular' not in str(err):
            raise
        # precondition of the property: the converged state has a nonsingular dR/du (this path's pivots are all zero)
        ctx.assume(False)
        return
    nf = int(np.prod(np.shape(f)))
    Jf, Js = J[:nf, :], J[nf:, :]
    if ctx.sym:
        from symx.ctx import sym_id
        dRds = np.array([[R[i].diff(sym_id(s[j])) for j in range(ns)] for i in range(ns)], dtype=object)
        dRda = np.array([[R[i].diff(sym_id(a[j])) for j in range(na)] for i in range(ns)], dtype=object)
        dfds = np.array([[np.asarray(f).reshape(-1)[i].diff(sym_id(s[j])) for j in range(ns)] for i in range(nf)], dtype=object)
    else:
        # float replay: the same matrices by central differences of the ground-truth evaluator
        def refeval(sv_, av_):
            o, _, r = P.reference(ctx, {P.wrts[0]: av_}, {sv.abs: sv_})
            return np.asarray(r[sv.abs], dtype=float).reshape(-1), np.asarray(o[P.ofs[0]], dtype=float).reshape(-1)
        h = 1e-6
        dRds = np.zeros((ns, ns)); dRda = np.zeros((ns, na)); dfds = np.zeros((nf, ns))
        for j in range(ns):
            e = np.zeros(ns); e[j] = h
            rp, fp = refeval(s + e, a); rm, fm = refeval(s - e, a)
            dRds[:, j] = (rp - rm) / (2 * h); dfds[:, j] = (fp - fm) / (2 * h)
        for j in range(na):
            e = np.zeros(na); e[j] = h
            rp, _ = refeval(s, a + e); rm, _ = refeval(s, a - e)
            dRda[:, j] = (rp - rm) / (2 * h)
    lhs = dRds.dot(Js) + dRda
    # exact: the scaled implicit programs use scaling constants whose reciprocals are exact in binary floating point, and a
    # margin on these rational identities (division by the symbolic determinant) would push z3 into nonlinear search
    stol = 0
    ctx.eq('implicit_function_identity', lhs, np.zeros((ns, na)) if not ctx.sym else ctx.zeros((ns, na)), stol if ctx.sym else 1e-5)
    ctx.eq('response_chain', Jf, dfds.dot(Js), stol if ctx.sym else 1e-5)
    ctx.observe('J', J)
