"""C32 Feed-forward models are fully solved by one ordered pass."""
import itertools
import random

import numpy as np
import openmdao.api as om

from progfam.library import LIBRARY, T, q22, q2s
from progfam.core import Prog, In
from checks.C24 import PROGS as C24_PROGS

LEVEL = 'model_checking'
EXPLANATION = ('Acyclic programs whose subsystems are added to their groups in every permutation (<= 4 items per level: all; more: '
               'a seeded sample) are set up with auto_order=True and run once with the default run-once solvers on symbolic inputs: '
               'every output must equal the ground-truth dataflow value and every residual must be identically zero, for all input '
               'values.  For partially cyclic models the resulting subsystem order is checked structurally: it is a topological order '
               'of the condensation and the members of a cycle keep their declared relative order.')
BOUNDS = dict(programs='chain3, diamond, branches, deep (nested groups, 5 components), auto_units; permutations of the order in which items are added: '
              'quick 12 per program, thorough all (<= 120) or 60 sampled', cyclic='2 models with one 2-cycle / 3-cycle embedded in a DAG, all 24/120 insertion orders')
STUBS = []
ASSUMPTIONS = ['reals']
OUTSIDE = ['auto_order=False (the user-declared order is then the contract)', 'MPI / parallel groups', 'the cyclic-order obligation is a structural (concrete) check per permutation, not a symbolic one']


def deep():
    P = Prog('deep')
    a = P.indep('a', (2,), kind='ivc')
    c1 = P.comp('c1', 'g1.h', {'x': In(a, shape=(2,))}, {'y': dict(shape=(2,))}, {'y': q22('x')}, 'dense')
    c2 = P.comp('c2', 'g1', {'x': In(c1['y'], shape=(2,))}, {'y': dict(shape=(2,))}, {'y': q22('x')}, 'sparse')
    c3 = P.comp('c3', 'g2', {'x': In(c2['y'], [([1, 0], True)], shape=(2,))}, {'y': dict(shape=(2,))}, {'y': q22('x')}, 'dense')
    c4 = P.comp('c4', 'g3.k', {'x': In(c3['y'], shape=(2,))}, {'y': dict(shape=(2,))}, {'y': q22('x')}, 'dense')
    c5 = P.comp('c5', '', {'u': In(c4['y'], shape=(2,)), 'v': In(c1['y'], shape=(2,))}, {'f': dict(shape=(1,))},
                {'f': [[T(1, ('u', 0, 1), ('v', 1, 1)), T(2, ('u', 1, 1)), T(-1, ('v', 0, 2))]]}, 'dense')
    P.ofs, P.wrts = [c5['f'].abs], [a.abs]
    P.features = ['nested groups (acyclic at every group level: g1.h -> g1 -> g2 -> g3.k -> top)']
    return P


PROGS = dict(C24_PROGS)
PROGS['deep'] = deep
PROGS['auto_units'] = LIBRARY['auto_units']


def _perms(n, tier, seed, name):
    allp = list(itertools.permutations(range(n)))
    rng = random.Random(f'{seed}-{name}')
    if tier == 'quick':
        rng.shuffle(allp)
        return [list(p) for p in allp[:12]]
    if len(allp) > 120:
        rng.shuffle(allp)
        allp = allp[:60]
    return [list(p) for p in allp]


def harnesses(tier, seed):
    jobs = []
    for name, mk in PROGS.items():
        n = len(mk().items)
        perms = _perms(n, tier, seed, name)
        for i in range(0, len(perms), 4):
            jobs.append(dict(fn='h_dag', params=dict(prog=name, orders=perms[i:i + 4])))
    for kind in ('cycle2', 'cycle3'):
        jobs.append(dict(fn='h_cyclic', params=dict(kind=kind, tier=tier)))
    return jobs


def h_dag(ctx, prog, orders):
    for k, order in enumerate(orders):
        P = PROGS[prog]()
        P.desvars, P.responses = [], []
        P.add_order = order
        P.auto_order = True
        p = P.build(ctx)
        vals = P.set_indeps(ctx, p, tag=f'x{k}')
        p.run_model()
        out, exp_in, _ = P.reference(ctx, vals)
        tol = 1e-9 if P.uses_units() else 0
        tag = ''.join(map(str, order))
        for name, want in out.items():
            if name not in vals:
                ctx.eq(f'[{tag}]out:{name}', p.get_val(name), want, tol)
        for name, want in exp_in.items():
            ctx.eq(f'[{tag}]in:{name}', p.get_val(name, from_src=False), want, tol)
        p.model.run_apply_nonlinear()
        r = p.model._residuals.asarray()
        ctx.eq(f'[{tag}]residuals_zero', r, 0 * r, tol)
        if k == 0:
            ctx.observe('outs', [p.get_val(o) for o in P.ofs])


class _Pass(om.ExplicitComponent):
    def __init__(self, ins):
        super().__init__()
        self._ins = ins

    def setup(self):
        for i in self._ins:
            self.add_input(i, 1.0)
        self.add_output('y', 1.0)
        if self._ins:
            self.declare_partials('*', '*', method='fd')

    def compute(self, i, o):
        o['y'] = sum(i[k] for k in self._ins) * 0.5 + 1.0


def h_cyclic(ctx, kind, tier):
    """structural: insertion-order permutations of a DAG with an embedded cycle; cycle members keep their declared relative order,
    everything else ends up in an order compatible with the data dependencies"""
    if kind == 'cycle2':
        nodes = {'s': [], 'a': ['s', 'b'], 'b': ['a'], 't': ['b']}
        cycle = {'a', 'b'}
    else:
        nodes = {'s': [], 'a': ['s', 'c'], 'b': ['a'], 'c': ['b'], 't': ['c', 's']}
        cycle = {'a', 'b', 'c'}
    names = list(nodes)
    perms = list(itertools.permutations(names))
    if tier == 'quick':
        perms = perms[::5]
    bad = []
    for perm in perms:
        p = om.Problem()
        p.model.options['auto_order'] = True
        for nm in perm:
            p.model.add_subsystem(nm, _Pass([f'i{k}' for k in range(len(nodes[nm]))]))
        for nm, srcs in nodes.items():
            for k, s in enumerate(srcs):
                p.model.connect(s + '.y', f'{nm}.i{k}')
        p.model.nonlinear_solver = om.NonlinearBlockGS(maxiter=2, iprint=-1, err_on_non_converge=False)
        import warnings
        with warnings.catch_warnings():
            warnings.simplefilter('ignore')
            p.setup()
            p.final_setup()
        order = [s.name for s in p.model._subsystems_myproc]
        pos = {n: i for i, n in enumerate(order)}
        declared = [n for n in perm if n in cycle]
        got = [n for n in order if n in cycle]
        ok = got == declared
        # non-cycle dependencies: source before target; cycle as a block between its predecessors and successors
        for nm, srcs in nodes.items():
            for s in srcs:
                if not (nm in cycle and s in cycle):
                    ok = ok and pos[s] < pos[nm]
        if not ok:
            bad.append((perm, order))
    ctx.check('cycle_members_keep_declared_order_and_dag_is_sorted', not bad, bad=repr(bad[:3]))
    ctx.observe('n', len(perms))
