"""C09 Iterative solvers honour their termination contract."""
import math

import numpy as np
import openmdao.api as om
from openmdao.core.analysis_error import AnalysisError

from symx.values import And, Or, Not, sb

LEVEL = 'model_checking'
EXPLANATION = ('The real NonlinearSolver._solve / LinearSolver._solve loops of Newton, Broyden, NLBGS, NLBJ, LNBGS, '
               'LNBJ run on a real coupled model; only the residual norm returned by _iter_get_norm is replaced by a '
               'symbolic history (each entry an arbitrary non-negative real, NaN or +inf) and _single_iteration by a '
               'counter.  atol, rtol, stall_tol are symbolic; z3 decides every loop exit and the failure-report rule.')
BOUNDS = dict(maxiter='0..3 (thorough 0..4)', stall_limit='0..2 (thorough 0..3)', stall_tol_type='rel|abs',
              err_on_non_converge='both', history='every entry: finite >= 0 | NaN | +inf (symbolic)')
STUBS = ['Solver._iter_get_norm -> next entry of the symbolic norm history',
         'Solver._single_iteration -> counter (the numerical update is irrelevant to the termination logic)',
         'Solver.report_failure wrapped to record the call (original still runs and raises)']
ASSUMPTIONS = ['atol >= 0, rtol >= 0, stall_tol >= 0', 'under complex step the first norm is finite', 'norms are reals or NaN/+inf (no negative norms, no -inf)']
OUTSIDE = ['ScipyKrylov / PETScKrylov (SciPy/PETSc own the loop)', 'line-search inner loops (C10)', 'BrentSolver',
           'complex-step forced iteration is covered only for NLBGS/Newton (force_one_iteration path)']

NL = dict(newton=lambda **k: om.NewtonSolver(solve_subsystems=False, **k), broyden=lambda **k: om.BroydenSolver(**k),
          nlbgs=lambda **k: om.NonlinearBlockGS(**k), nlbj=lambda **k: om.NonlinearBlockJac(**k))
LN = dict(lnbgs=lambda **k: om.LinearBlockGS(**k), lnbj=lambda **k: om.LinearBlockJac(**k))


def harnesses(tier, seed):
    jobs = []
    mis = (0, 1, 2, 3) if tier == 'quick' else (0, 1, 2, 3, 4)
    sls = (0, 1, 2) if tier == 'quick' else (0, 1, 2, 3)
    for cls in NL:
        for maxiter in mis:
            for sl in sls:
                if sl > maxiter and sl > 1:
                    continue
                types = ('rel', 'abs') if sl > 0 else ('rel',)
                for st in types:
                    if tier == 'quick' and cls in ('broyden', 'nlbj') and (st == 'abs' or maxiter == 3):
                        continue
                    for err in (True, False):
                        if tier == 'quick' and not err and (maxiter in (0, 3)):
                            continue
                        jobs.append(dict(fn='h_nl', params=dict(cls=cls, maxiter=maxiter, stall_limit=sl, stall_tol_type=st,
                                                                err=err, cs=False), wall_s=300 if tier == 'quick' else 1500))
    for cls in ('nlbgs', 'newton'):
        for maxiter in (0, 1, 2):
            jobs.append(dict(fn='h_nl', params=dict(cls=cls, maxiter=maxiter, stall_limit=0, stall_tol_type='rel', err=True, cs=True)))
    for cls in LN:
        for maxiter in mis:
            for err in (True, False):
                for mode in ('fwd', 'rev'):
                    if tier == 'quick' and mode == 'rev' and maxiter != 2:
                        continue
                    jobs.append(dict(fn='h_ln', params=dict(cls=cls, maxiter=maxiter, err=err, mode=mode)))
    return jobs


class _C1(om.ExplicitComponent):
    def setup(self):
        self.add_input('x', 1.0)
        self.add_input('y2', 1.0)
        self.add_output('y1', 1.0)
        self.declare_partials('y1', ['x', 'y2'])

    def compute(self, i, o):
        o['y1'] = 0.5 * i['y2'] + i['x']

    def compute_partials(self, i, J):
        J['y1', 'x'] = 1.0
        J['y1', 'y2'] = 0.5


class _C2(om.ExplicitComponent):
    def setup(self):
        self.add_input('y1', 1.0)
        self.add_output('y2', 1.0)
        self.declare_partials('y2', 'y1')

    def compute(self, i, o):
        o['y2'] = 0.5 * i['y1']

    def compute_partials(self, i, J):
        J['y2', 'y1'] = 0.5


def _build(nl=None, ln=None, cs=False):
    p = om.Problem()
    g = p.model.add_subsystem('g', om.Group(), promotes=['*'])
    g.add_subsystem('c1', _C1(), promotes=['*'])
    g.add_subsystem('c2', _C2(), promotes=['*'])
    g.nonlinear_solver = nl if nl is not None else om.NonlinearBlockGS(maxiter=20, iprint=-1)
    g.linear_solver = ln if ln is not None else om.DirectSolver()
    if isinstance(nl, om.BroydenSolver):
        nl.linear_solver = om.DirectSolver()
    p.setup(force_alloc_complex=cs)
    p.final_setup()
    return p, g


def _conv(n, n0, atol, rtol):
    """meets a tolerance (NaN/inf never do)"""
    if isinstance(n, float) and not math.isfinite(n):
        return False
    if isinstance(n0, float) and not math.isfinite(n0):
        # norm/norm0 with non-finite norm0: n/inf = 0 <= rtol holds for finite n; n/nan is nan
        return Or(n <= atol, (not math.isnan(n0)) and True)
    return Or(n <= atol, n / n0 <= rtol)


def _nonfinite(n):
    return isinstance(n, float) and not math.isfinite(n)


def _instrument(ctx, solver, hist, calls):
    def get_norm():
        k = len(hist)
        # under complex step the forced iteration starts from a finite norm (a NaN first norm makes
        # the relative tolerance undefined: outside the claim)
        v = ctx.special(f'n{k}', 0) if not (calls.get('cs') and k == 0) else ctx.real('n0', 0)
        hist.append(v)
        return v

    def single():
        if calls['iters'] == 0:
            calls['norms_before_first_iteration'] = len(hist)
        calls['iters'] += 1
    orig_report = solver.report_failure

    def report(msg):
        calls['failures'].append(msg)
        return orig_report(msg)
    solver._iter_get_norm = get_norm
    solver._single_iteration = single
    solver.report_failure = report


def _tolerances(ctx, solver):
    atol = ctx.real('atol', 0)
    rtol = ctx.real('rtol', 0)
    if ctx.sym:
        solver.options._dict['atol']['val'] = atol
        solver.options._dict['rtol']['val'] = rtol
    else:
        solver.options['atol'] = atol
        solver.options['rtol'] = rtol
    return atol, rtol


def _check_contract(ctx, solver, hist, calls, raised, maxiter, atol, rtol, err, cs, stall_limit=0):
    it = solver._iter_count           # NLBGS counts its initial sweep as an iteration
    # the solver takes the norm as 1.0 when it does not evaluate it before iterating (maxiter == 0,
    # block linear solvers with maxiter <= 1): the history it acts on starts with that 1.0
    seq = list(hist)
    if calls.get('norms_before_first_iteration', len(hist)) == 0:
        seq = [1.0] + seq
    n0 = seq[0]
    if not _nonfinite(n0) and (n0 == 0):
        n0 = 1.0
    final = seq[-1]
    ctx.check('iterations<=maxiter', it <= (max(maxiter, 1) if cs else maxiter))
    ctx.check('single_iterations<=maxiter', calls['iters'] <= (max(maxiter, 1) if cs else maxiter))
    # no iterate before the last met a tolerance (stop at the FIRST iterate meeting atol or rtol)
    for j in range(len(seq) - 1):
        if cs and j == 0:
            continue          # the forced complex-step iteration is allowed to run from a converged state
        ctx.check(f'not_converged_before_stop[{j}]', Not(_conv(seq[j], n0, atol, rtol)))
    conv = _conv(final, n0, atol, rtol)
    failed = len(calls['failures']) > 0
    ctx.check('failure_iff_not_converged', sb(failed) == sb(Not(conv)))
    ctx.check('at_most_one_report', len(calls['failures']) <= 1)
    ctx.check('raises_iff_failure_and_err', (raised is not None) == (failed and err))
    # with stall detection disabled a stop must be justified: converged, maxiter reached or non-finite
    # (when and whether the stall rule fires is not part of the property; only its reporting is)
    if stall_limit == 0:
        ctx.check('stop_is_justified', Or(conv, it >= maxiter, _nonfinite(final)))
    ctx.observe('iters', it)
    ctx.observe('failed', failed)
    ctx.observe('raised', raised is not None)


def h_nl(ctx, cls, maxiter, stall_limit, stall_tol_type, err, cs):
    kw = dict(maxiter=maxiter, iprint=-1, err_on_non_converge=err, stall_limit=stall_limit, stall_tol_type=stall_tol_type)
    solver = NL[cls](**kw)
    p, g = _build(nl=solver, cs=cs)
    atol, rtol = _tolerances(ctx, solver)
    if stall_limit > 0:
        stol = ctx.real('stall_tol', 0)
        if ctx.sym:
            solver.options._dict['stall_tol']['val'] = stol
        else:
            solver.options['stall_tol'] = stol
    hist, calls = [], dict(iters=0, failures=[], cs=cs)
    _instrument(ctx, solver, hist, calls)
    raised = None
    try:
        if cs:
            p.model._set_complex_step_mode(True)
        p.run_model()
    except AnalysisError as e:
        raised = e
    _check_contract(ctx, solver, hist, calls, raised, maxiter, atol, rtol, err, cs, stall_limit)


def h_ln(ctx, cls, maxiter, err, mode):
    solver = LN[cls](maxiter=maxiter, iprint=-1, err_on_non_converge=err)
    p, g = _build(ln=solver)
    p.run_model()
    atol, rtol = _tolerances(ctx, solver)
    hist, calls = [], dict(iters=0, failures=[])
    _instrument(ctx, solver, hist, calls)
    raised = None
    g.run_linearize()
    if mode == 'fwd':
        g._dresiduals.set_val(1.0)
    else:
        g._doutputs.set_val(1.0)
    try:
        g.run_solve_linear(mode)
    except AnalysisError as e:
        raised = e
    _check_contract(ctx, solver, hist, calls, raised, maxiter, atol, rtol, err, False)
