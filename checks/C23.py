"""C23 DOE generators stay within bounds and cover their designs."""
import itertools

import numpy as np
import openmdao.api as om
import openmdao.drivers.doe_generators as DG

LEVEL = 'model_checking'
EXPLANATION = ('The real DOE generators are called on design-variable metadata with symbolic lower <= upper bounds (scalar and per-element). '
               'Full factorial / Plackett-Burman / Box-Behnken / generalized subset: the index design comes from the real pyDOE3 routine '
               '(concrete), the yielded values must lie in [lower, upper] and, for full factorial, be exactly the cartesian product of '
               'linspace(lower, upper, levels) per factor, each combination once.  Uniform and Latin hypercube: the random source is a '
               'nondeterministic stub constrained only by its documented contract (uniform in [low, high]; one sample in every stratum '
               '[k/n, (k+1)/n) of every dimension), and the affine map must keep every value in bounds and one sample in every scaled '
               'stratum.  DOEDriver: with a ListGenerator of symbolic cases, the model is evaluated at exactly the generated values (design '
               'variable in model units, response equal to the function of that value) for every case, with driver scaling declared.')
BOUNDS = dict(design_vars='<= 2 variables, sizes 1-2 (total factors <= 3)', levels='2, 3 (dict per variable in the thorough tier)', samples='<= 4', lhs='strata assignment (a permutation per dimension) symbolic through the stub: every permutation of <= 3 samples')
STUBS = ['np.random.uniform -> nondeterministic value in [low, high]', 'pyDOE3 lhs -> nondeterministic one-sample-per-stratum design (the criterion/iterations only choose among such designs)', 'np.random.seed no-op']
ASSUMPTIONS = ['lower <= upper', 'reals']
OUTSIDE = ['reproducibility under a seed (a statement about NumPy\'s generator)', 'CSVGenerator file parsing', 'parallel DOE (MPI)', 'the pyDOE3 design routines themselves (their integer designs are taken as given)']


def harnesses(tier, seed):
    q = tier == 'quick'
    jobs = []
    for gen in ('fullfact2', 'fullfact3', 'pb', 'bb', 'gsd'):
        for layout in ('s', 'a2', 's+a2') if not q else ('s+a2', 'a2'):
            jobs.append(dict(fn='h_pydoe', params=dict(gen=gen, layout=layout)))
    if not q:
        jobs.append(dict(fn='h_pydoe', params=dict(gen='fullfact_dict', layout='s+a2')))
    for layout in ('s', 's+a2'):
        jobs.append(dict(fn='h_uniform', params=dict(layout=layout, samples=2)))
        for n in (2, 3):
            jobs.append(dict(fn='h_lhs', params=dict(layout=layout, samples=n), max_paths=20000))
    jobs.append(dict(fn='h_driver', params=dict(scaled=False)))
    jobs.append(dict(fn='h_driver', params=dict(scaled=True)))
    return jobs


def _dvs(ctx, layout):
    """design-variable metadata as DOEDriver passes it, with symbolic bounds"""
    dv = {}
    bounds = {}
    for part in layout.split('+'):
        if part == 's':
            lo, up = ctx.real('slo', -50, 50), ctx.real('sup', -50, 50)
            ctx.assume(lo <= up)
            dv['s'] = dict(size=1, global_size=1, distributed=False, lower=lo, upper=up)
            bounds['s'] = ([lo], [up])
        else:
            lo, up = ctx.reals('alo', 2, -50, 50), ctx.reals('aup', 2, -50, 50)
            for i in range(2):
                ctx.assume(lo[i] <= up[i])
            dv['a'] = dict(size=2, global_size=2, distributed=False, lower=lo, upper=up)
            bounds['a'] = (list(lo), list(up))
    return dv, bounds


def _in_bounds(ctx, tag, cases, bounds):
    for k, case in enumerate(cases):
        for name, val in case:
            lo, up = bounds[name]
            v = np.atleast_1d(val)
            for i in range(len(lo)):
                ctx.check(f'{tag}:case{k}:{name}[{i}]>=lower', v[i] >= lo[i])
                ctx.check(f'{tag}:case{k}:{name}[{i}]<=upper', v[i] <= up[i])


def h_pydoe(ctx, gen, layout):
    dv, bounds = _dvs(ctx, layout)
    if gen == 'fullfact2':
        g, lev = DG.FullFactorialGenerator(levels=2), 2
    elif gen == 'fullfact3':
        g, lev = DG.FullFactorialGenerator(levels=3), 3
    elif gen == 'fullfact_dict':
        g, lev = DG.FullFactorialGenerator(levels={'s': 3, 'default': 2}), None
    elif gen == 'pb':
        g, lev = DG.PlackettBurmanGenerator(), 2
    elif gen == 'bb':
        g, lev = DG.BoxBehnkenGenerator(), 3
    else:
        g, lev = DG.GeneralizedSubsetGenerator(levels=3, reduction=2), 3
    nfac = sum(m['size'] for m in dv.values())
    if gen == 'bb' and nfac < 3:
        ctx.check('skipped_box_behnken_needs_3_factors', True)
        return
    cases = list(g(dv))
    ctx.check('yields_cases', len(cases) > 0)
    _in_bounds(ctx, gen, cases, bounds)
    # every yielded value is one of the levels linspace(lower, upper, levels) of its factor
    flat_lo = [b for name in dv for b in bounds[name][0]]
    flat_up = [b for name in dv for b in bounds[name][1]]

    def levels_of(f, name):
        L = lev if lev is not None else (3 if name == 's' else 2)
        return [flat_lo[f] + (flat_up[f] - flat_lo[f]) * ctx.const(j) / ctx.const(L - 1) for j in range(L)]
    names = [name for name, m in dv.items() for _ in range(m['size'])]
    rows = []
    for case in cases:
        row = []
        for name, val in case:
            row.extend(list(np.atleast_1d(val)))
        rows.append(row)
    if gen.startswith('fullfact'):
        # exactly the cartesian product, each combination once: compare with the product enumerated in pyDOE's documented order
        # (first factor varies fastest)
        lv = [levels_of(f, names[f]) for f in range(nfac)]
        want = [list(reversed(c)) for c in itertools.product(*[lv[f] for f in reversed(range(nfac))])]
        ctx.check('number_of_cases_is_product_of_levels', len(rows) == len(want))
        for k in range(min(len(rows), len(want))):
            for f in range(nfac):
                ctx.eq(f'case{k}:factor{f}', rows[k][f], want[k][f], 1e-9)
    else:
        for k, row in enumerate(rows):
            for f in range(nfac):
                lvl = levels_of(f, names[f])
                hit = False
                for x in lvl:
                    d = row[f] - x
                    hit = hit or bool((d <= ctx.const(1e-9) * 101) & (d >= -ctx.const(1e-9) * 101))
                ctx.check(f'case{k}:factor{f}_is_a_level', hit)
    ctx.observe('n', len(rows))


def h_uniform(ctx, layout, samples):
    dv, bounds = _dvs(ctx, layout)
    draws = []

    class _RNG:
        def seed(self, *a):
            pass

        def uniform(self, low, high, size=None):
            low, high = np.atleast_1d(low), np.atleast_1d(high)
            out = np.empty(low.shape, dtype=object if ctx.sym else float)
            for i in range(low.size):
                u = ctx.real(f'u{len(draws)}', 0, 1)
                draws.append(u)
                out[i] = low[i] + u * (high[i] - low[i])        # any value in [low, high]: the documented contract
            return out
    saved = DG.np
    proxy = type('NP', (), {'__getattr__': lambda self, n: getattr(saved, n), 'random': _RNG()})()
    DG.np = proxy
    try:
        cases = list(DG.UniformGenerator(num_samples=samples, seed=3)(dv))
    finally:
        DG.np = saved
    ctx.check('number_of_samples', len(cases) == samples)
    _in_bounds(ctx, 'uniform', cases, bounds)
    ctx.observe('n', len(cases))


def h_lhs(ctx, layout, samples):
    dv, bounds = _dvs(ctx, layout)
    nfac = sum(m['size'] for m in dv.values())
    perm = {}

    def fake_lhs(n, samples=None, criterion=None, iterations=None, random_state=None, **kw):
        # contract of pyDOE lhs: an (samples x n) array in [0, 1) with exactly one sample in each stratum [k/N, (k+1)/N) per column;
        # which sample sits in which stratum is a symbolic permutation (realised by the explorer), the position inside is symbolic
        N = samples
        out = np.empty((N, n), dtype=object if ctx.sym else float)
        for j in range(n):
            ks = [ctx.integer(f'k{j}_{i}', 0, N - 1) for i in range(N)]
            for i in range(N):
                for i2 in range(i):
                    ctx.assume(ks[i] != ks[i2])
            ks = [int(k) for k in ks]
            perm[j] = ks
            for i in range(N):
                t = ctx.real(f't{j}_{i}', 0, 1)
                ctx.assume(t < 1)
                out[i, j] = (ctx.const(ks[i]) + t) / ctx.const(N)
        return out
    g = DG.LatinHypercubeGenerator(samples=samples, criterion=None, seed=None)
    g._lhs = fake_lhs
    cases = list(g(dv))
    ctx.check('number_of_samples', len(cases) == samples)
    _in_bounds(ctx, 'lhs', cases, bounds)
    flat_lo = [b for name in dv for b in bounds[name][0]]
    flat_up = [b for name in dv for b in bounds[name][1]]
    N = samples
    for f in range(nfac):
        for i, case in enumerate(cases):
            row = []
            for name, val in case:
                row.extend(list(np.atleast_1d(val)))
            k = perm[f][i]
            w = flat_up[f] - flat_lo[f]
            ctx.check(f'factor{f}:sample{i}_in_its_scaled_stratum_lo', row[f] >= flat_lo[f] + w * ctx.const(k) / ctx.const(N))
            ctx.check(f'factor{f}:sample{i}_in_its_scaled_stratum_hi', row[f] <= flat_lo[f] + w * ctx.const(k + 1) / ctx.const(N))
        ctx.check(f'factor{f}:one_sample_per_stratum', sorted(perm[f]) == list(range(N)))
    ctx.observe('n', len(cases))


def h_driver(ctx, scaled):
    """DOEDriver evaluates the model at exactly the generated values"""
    if ctx.sym:
        from symx import stubs
        import openmdao.utils.general_utils as GU
        import openmdao.core.system as SY
        stubs.install_float(GU, SY)
    xp = ctx.np
    vals = ctx.reals('v', (3, 2), -10, 10)
    seen = []

    class _C(om.ExplicitComponent):
        def setup(self):
            self.add_input('x', val=xp.ones(2))
            self.add_output('y', val=xp.ones(1))
            self.declare_partials('*', '*', method='fd')

        def compute(self, i, o):
            seen.append(i['x'].copy())
            o['y'] = i['x'][0] * i['x'][1] + 2 * i['x'][0]
    p = om.Problem()
    p.model.add_subsystem('c', _C(), promotes=['*'])
    kw = dict(scaler=np.array([2.0, -0.5]), adder=np.array([1.0, 3.0])) if scaled else {}
    p.model.add_design_var('x', lower=-100, upper=100, **kw)
    p.model.add_objective('y')
    cases = [[('x', vals[k])] for k in range(3)]
    p.driver = om.DOEDriver(DG.ListGenerator(cases))
    p.setup()
    p.final_setup()
    seen.clear()
    p.run_driver()
    ctx.check('one_evaluation_per_case', len(seen) == 3)
    for k in range(min(3, len(seen))):
        ctx.eq(f'case{k}:model_input_is_generated_value', seen[k], vals[k])
    ctx.eq('final_state_is_last_case', p.get_val('x'), vals[2])
    ctx.eq('final_response', p.get_val('y'), vals[2][0] * vals[2][1] + 2 * vals[2][0])
    ctx.observe('n', len(seen))
