"""C22 Constraint violation is measured correctly elementwise and in driver units."""
import numpy as np
import openmdao.api as om

LEVEL = 'model_checking'
EXPLANATION = ('Symbolic execution of Driver.get_constraint_values(viol=True) / Driver._compute_con_viol on a real '
               'Problem: constraint values, bounds (scalar and per-element), equality targets and scaler/adder are '
               'symbolic reals; the reference is the per-element signed distance times the scaler.')
BOUNDS = dict(constraints='<= 2', elements_per_constraint='<= 3 (quick 2; two-sided bounds with symbolic scaling <= 2; _compute_con_viol: quick 1, thorough 2)', bound_forms='scalar | per-element array | one-sided | equality',
              scaling='scaler/adder symbolic (array), ref/ref0 symbolic (array), none')
STUBS = ['module-global float in openmdao.utils.general_utils / openmdao.core.system -> pass-through for proxies']
ASSUMPTIONS = ['scaler != 0, ref != ref0', 'lower <= upper', 'numbers are mathematical reals']
OUTSIDE = ['find_feasible least-squares iteration itself (SciPy)', 'distributed constraints', 'unit conversion on constraints (C20)']


def harnesses(tier, seed):
    jobs = []
    q = tier == 'quick'
    ns = (1, 2) if q else (1, 2, 3)
    # quick tier: every bound form x scaling x driver_scaling with one element; with two elements one driver_scaling value per
    # (bound form, scaling) pair, alternating (the two-element scaler_adder/array runs are ~5400 paths each)
    alt = 0
    for n in ns:
        for bform in ('scalar', 'array', 'lower_only', 'upper_only', 'equals_scalar', 'equals_array'):
            if n == 1 and bform in ('array', 'equals_array'):
                continue
            for scaling in ('none', 'scaler_adder', 'ref_ref0'):
                if n == 3 and bform in ('scalar', 'array') and scaling != 'none':
                    continue        # ~73 paths per element (sign of the scaler x position against both bounds x infinite-bound tests): 390k paths
                dss = (True, False)
                if q and n == 2 and scaling != 'none':
                    alt += 1
                    dss = (bool(alt % 2),)
                for ds in dss:
                    if scaling == 'none' and not ds:
                        continue
                    jobs.append(dict(fn='h_viol', params=dict(n=n, bform=bform, scaling=scaling, driver_scaling=ds), max_paths=200000, wall_s=600 if q else 3000))
    for ds in (True, False):
        jobs.append(dict(fn='h_con_viol_vector', params=dict(driver_scaling=ds, n=1 if q else 2), max_paths=100000,
                         wall_s=600 if q else 3000))
    return jobs


class _Pass(om.ExplicitComponent):
    def __init__(self, n, xp, names=('y',)):
        super().__init__()
        self._n, self._xp, self._names = n, xp, names

    def setup(self):
        self.add_input('x', val=self._xp.ones(self._n))
        for nm in self._names:
            self.add_output(nm, val=self._xp.ones(self._n))
            self.declare_partials(nm, 'x', rows=np.arange(self._n), cols=np.arange(self._n), val=1.0)

    def compute(self, inputs, outputs):
        for k, nm in enumerate(self._names):
            outputs[nm] = inputs['x'] * (k + 1)


def _install(ctx):
    if ctx.sym:
        from symx import stubs
        import openmdao.utils.general_utils as GU
        import openmdao.core.system as SY
        stubs.install_float(GU, SY)


def _scaling_kwargs(ctx, scaling, n, tag=''):
    """returns (kwargs for add_constraint, scaler s, adder a) with x_scaled = (x + a) * s"""
    if scaling == 'none':
        return {}, None
    if scaling == 'scaler_adder':
        s = ctx.reals('s' + tag, n)
        a = ctx.reals('a' + tag, n)
        for i in range(n):
            ctx.assume(s[i] != 0)
        return dict(scaler=s, adder=a), s
    ref = ctx.reals('ref' + tag, n)
    ref0 = ctx.reals('ref0' + tag, n)
    for i in range(n):
        ctx.assume(ref[i] != ref0[i])
    return dict(ref=ref, ref0=ref0), [1 / (ref[i] - ref0[i]) for i in range(n)]


def _bounds(ctx, bform, n, tag=''):
    """returns (kwargs, per-element lower list|None, upper list|None, equals list|None)"""
    if bform == 'scalar':
        lo, up = ctx.real('lo' + tag), ctx.real('up' + tag)
        ctx.assume(lo <= up)
        return dict(lower=lo, upper=up), [lo] * n, [up] * n, None
    if bform == 'array':
        lo, up = ctx.reals('lo' + tag, n), ctx.reals('up' + tag, n)
        for i in range(n):
            ctx.assume(lo[i] <= up[i])
        return dict(lower=lo, upper=up), list(lo), list(up), None
    if bform == 'lower_only':
        lo = ctx.reals('lo' + tag, n) if n > 1 else ctx.real('lo' + tag)
        return dict(lower=lo), (list(lo) if n > 1 else [lo]), None, None
    if bform == 'upper_only':
        up = ctx.reals('up' + tag, n) if n > 1 else ctx.real('up' + tag)
        return dict(upper=up), None, (list(up) if n > 1 else [up]), None
    if bform == 'equals_scalar':
        eq = ctx.real('eq' + tag)
        return dict(equals=eq), None, None, [eq] * n
    eq = ctx.reals('eq' + tag, n)
    return dict(equals=eq), None, None, list(eq)


def _expected(ctx, val, lo, up, eq, s):
    """reference: signed distance outside the bounds (0 inside), times the scaler"""
    out = []
    for i in range(len(val)):
        v = val[i]
        if eq is not None:
            d = v - eq[i]
        elif up is not None and (v > up[i]):
            d = v - up[i]
        elif lo is not None and (v < lo[i]):
            d = v - lo[i]
        else:
            d = 0 * v
        out.append(d * s[i] if s is not None else d)
    return out


def h_viol(ctx, n, bform, scaling, driver_scaling):
    _install(ctx)
    xp = ctx.np
    x = ctx.reals('x', n, -100, 100)
    bkw, lo, up, eq = _bounds(ctx, bform, n)
    skw, s = _scaling_kwargs(ctx, scaling, n)
    p = om.Problem()
    p.model.add_subsystem('c', _Pass(n, xp), promotes=['*'])
    p.model.add_design_var('x')
    p.model.add_objective('y', index=0)
    p.model.add_subsystem('d', _Pass(n, xp), promotes_inputs=['x'])
    p.model.add_constraint('d.y', **bkw, **skw)
    p.setup()
    p.set_val('x', x)
    p.final_setup()
    p.run_model()
    got = p.driver.get_constraint_values(viol=True, driver_scaling=driver_scaling)['d.y']
    want = _expected(ctx, x, lo, up, eq, s if driver_scaling else None)
    ctx.eq('viol', got, ctx.array(want) if ctx.sym else np.array(want, dtype=float))
    # the plain values must be unaffected by a violation query (no state leaks into the next call)
    plain = p.driver.get_constraint_values(driver_scaling=False)['d.y']
    ctx.eq('plain_after', plain, x)
    ctx.observe('viol', got)


def h_con_viol_vector(ctx, driver_scaling, n=2, free_signs=2):
    """_compute_con_viol: linear constraints first, then nonlinear, each as in h_viol.  free_signs=1: the scalers of the
    (equality) linear constraint are assumed positive, those of the two-sided nonlinear one are free."""
    _install(ctx)
    xp = ctx.np
    x = ctx.reals('x', n, -100, 100)
    lo1, up1 = ctx.real('lo1'), ctx.real('up1')
    ctx.assume(lo1 <= up1)
    eq2 = ctx.reals('eq2', n)
    s1 = ctx.reals('s1', n)
    s2 = ctx.reals('s2', n)
    for i in range(n):
        ctx.assume(s1[i] != 0)
        ctx.assume(s2[i] != 0 if free_signs > 1 else s2[i] > 0)
    p = om.Problem()
    p.model.add_subsystem('c', _Pass(n, xp, names=('y', 'z', 'w')), promotes=['*'])
    p.model.add_design_var('x')
    p.model.add_objective('w', index=0)
    p.model.add_constraint('y', lower=lo1, upper=up1, scaler=s1)             # nonlinear: y = x
    p.model.add_constraint('z', equals=eq2, scaler=s2, linear=True)          # linear:   z = 2x
    p.setup()
    p.set_val('x', x)
    p.final_setup()
    p.run_model()
    drv = p.driver
    xnew = x.copy()
    got = drv._compute_con_viol(xnew, ['x'], driver_scaling=driver_scaling)
    wz = _expected(ctx, 2 * x, None, None, list(eq2), s2 if driver_scaling else None)
    wy = _expected(ctx, x, [lo1] * n, [up1] * n, None, s1 if driver_scaling else None)
    want = wz + wy
    ctx.eq('con_viol', got, ctx.array(want) if ctx.sym else np.array(want, dtype=float))
    ctx.observe('con_viol', got)
