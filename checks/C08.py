"""C08 Solver scaling never changes physical results."""
from fractions import Fraction as Fr

import numpy as np
import openmdao.api as om

from progfam.library import LIBRARY, IMPLICIT
from checks.C01 import explicit_totals

LEVEL = 'model_checking'
EXPLANATION = ('Every member of the program family is re-declared with ref/ref0/res_ref on all of its outputs (exact rational '
               'scaling parameters enumerated over sign/order classes, scalar and per-element) and run symbolically through the '
               'real framework: physical outputs, physical inputs at every compute, physical residuals, and total derivatives '
               '(fwd and rev) must be the same terms as the ground truth / chain-rule derivative, i.e. identical to the '
               'unscaled program for every input value.')
BOUNDS = dict(programs='progfam.library explicit members (11+2) and the implicit ones in converged-state form', scaling_classes='ref>ref0>0 | ref<ref0 | negative ref, ref0=0 | ref0 only | '
              'per-element arrays with mixed signs | res_ref independent of ref (scalar, negative, per-element, 1)', modes='fwd, rev')
STUBS = ['exact-elimination LU / symx.sparse for the implicit programs']
ASSUMPTIONS = ['scaling parameters are concrete rationals (symbolic ref/ref0 in a whole-model run sends z3 into nonlinear search; fully symbolic ref/ref0 are covered at kernel level by C33 and C10)',
               '1e-9 margin: 1.0/(ref-ref0) and unit factors are inexact float constants']
OUTSIDE = ['iterating Newton/NLBGS itself (converged-state form only)', 'driver scaling (C20)']

CLASSES = ['pos', 'flip', 'negref', 'ref0only', 'arr', 'resref', 'arr_resref1']


def harnesses(tier, seed):
    q = tier == 'quick'
    jobs = []
    progs = ['basic', 'idx_flat', 'auto_units', 'temp_offset', 'branches', 'matfree', 'units_ref0'] if q else list(LIBRARY)
    for k, prog in enumerate(progs):
        cls = [CLASSES[k % len(CLASSES)], CLASSES[(k + 3) % len(CLASSES)]] if q else CLASSES
        for c in cls:
            for mode in ('fwd', 'rev'):
                jobs.append(dict(fn='h_scaled', params=dict(prog=prog, cls=c, mode=mode)))
    for prog in (['implicit_asm'] if q else list(IMPLICIT)):
        for c in ['flip2', 'arr2', 'ref0only', 'neg4'][:2 if q else 4]:
            for mode in ('fwd', 'rev'):
                jobs.append(dict(fn='h_scaled_implicit', params=dict(prog=prog, cls=c, mode=mode)))
    return jobs


def _arr(vals, shape):
    n = int(np.prod(shape))
    a = np.array([vals[i % len(vals)] for i in range(n)], dtype=object).reshape(shape)
    return a


def scaling_kwargs(cls, shape):
    if cls == 'pos':
        return dict(ref=Fr(3, 2), ref0=Fr(1, 2))
    if cls == 'flip':
        return dict(ref=Fr(-1), ref0=Fr(2), res_ref=Fr(7, 2))
    if cls == 'negref':
        return dict(ref=Fr(-3))
    if cls == 'ref0only':
        return dict(ref0=Fr(3))
    if cls == 'arr':
        return dict(ref=_arr([Fr(2), Fr(-1), Fr(1, 2)], shape), ref0=_arr([Fr(1), Fr(3), Fr(0)], shape), res_ref=_arr([Fr(-4), Fr(1), Fr(5, 2)], shape))
    if cls == 'neg4':
        return dict(ref=Fr(-4))
    if cls == 'flip2':       # dyadic: 1/(ref-ref0) and 1/res_ref are exact floats
        return dict(ref=Fr(-1), ref0=Fr(1), res_ref=Fr(-4))
    if cls == 'arr2':
        return dict(ref=_arr([Fr(2), Fr(-1), Fr(1, 2)], shape), ref0=_arr([Fr(1), Fr(3), Fr(0)], shape), res_ref=_arr([Fr(-4), Fr(1), Fr(1, 2)], shape))
    if cls == 'resref':
        return dict(res_ref=Fr(-5, 2))
    if cls == 'arr_resref1':
        return dict(ref=_arr([Fr(7), Fr(-2)], shape), ref0=_arr([Fr(-1, 4), Fr(1)], shape), res_ref=Fr(1))
    raise ValueError(cls)


def apply_scaling(P, cls):
    for it in P.items:
        if it[0] == 'comp':
            spec = it[3]
            for o, meta in spec.outs.items():
                for k in ('ref', 'ref0', 'res_ref'):
                    meta.pop(k, None)
                meta.update(scaling_kwargs(cls, meta['shape']))
    P.features = list(P.features) + ['ref/ref0/res_ref: ' + cls]
    return P


def _physical_checks(ctx, tol):
    def after_run(P, p, base):
        out, exp_in, _ = P.reference(ctx, base)
        for name, want in out.items():
            if name in base:
                continue
            ctx.eq('out:' + name, p.get_val(name), want, tol)
            ctx.eq('vec_out:' + name, p.model._outputs[name], want, tol)
        for name, want in exp_in.items():
            ctx.eq('in:' + name, p.get_val(name, from_src=False), want, tol)
        # physical residuals of a converged explicit model are zero (the vector is unscaled outside of solves)
        p.model.run_apply_nonlinear()
        for name in out:
            if name in base:
                continue
            r = p.model._residuals[name]
            ctx.eq('resid:' + name, r, 0 * np.asarray(r, dtype=object if ctx.sym else float), tol)
        # and running again does not drift (scale/unscale round trips are exact inverses)
        p.run_model()
        for o in P.ofs:
            ctx.eq('rerun:' + o, p.get_val(o), out[o], tol)
    return after_run


def h_scaled(ctx, prog, cls, mode):
    explicit_totals(ctx, lambda: apply_scaling(LIBRARY[prog](), cls), mode, after_run=_physical_checks(ctx, 1e-9))


def h_scaled_implicit(ctx, prog, cls, mode):
    from checks import C01
    import progfam.library as L
    orig = L.IMPLICIT[prog]
    C01.IMPLICIT[prog + '@' + cls] = lambda: apply_scaling(orig(), cls)
    try:
        C01.h_implicit(ctx, prog + '@' + cls, mode)
    finally:
        C01.IMPLICIT.pop(prog + '@' + cls, None)
