"""C08 Solver scaling never changes physical results."""
from fractions import Fraction as Fr

import numpy as np
import openmdao.api as om

from progfam.library import LIBRARY, IMPLICIT
from checks.C01 import explicit_totals

LEVEL = 'model_checking'
EXPLANATION = ('Every member of the program family is re-declared with ref/ref0/res_ref on all of its outputs (exact rational '
               'scaling parameters enumerated over sign/order classes, scalar and per-element) and run symbolically through the '
               'real framework: physical outputs, physical inputs at every compute, physical residuals, and total derivatives '
               '(fwd and rev) must be the same terms as the ground truth / chain-rule derivative, i.e. identical to the '
               'unscaled program for every input value.')
BOUNDS = dict(programs='progfam.library explicit members (11+2) and the implicit ones in converged-state form', scaling_classes='ref>ref0>0 | ref<ref0 | negative ref, ref0=0 | ref0 only | '
              'per-element arrays with mixed signs | res_ref independent of ref (scalar, negative, per-element, 1)', modes='fwd, rev')
STUBS = ['exact-elimination LU / symx.sparse for the implicit programs', 'NonlinearBlockGS._iter_get_norm -> constant (h_nlbgs: one sweep, loop logic is C09)']
ASSUMPTIONS = ['scaling parameters are concrete rationals (symbolic ref/ref0 in a whole-model run sends z3 into nonlinear search; fully symbolic ref/ref0 are covered at kernel level by C33 and C10)',
               '1e-9 margin: 1.0/(ref-ref0) and unit factors are inexact float constants']
OUTSIDE = ['iterating Newton/NLBGS itself (converged-state form only)', 'driver scaling (C20)']

CLASSES = ['pos', 'flip', 'negref', 'ref0only', 'arr', 'resref', 'arr_resref1']


def harnesses(tier, seed):
    q = tier == 'quick'
    jobs = []
    progs = ['basic', 'idx_flat', 'auto_units', 'temp_offset', 'branches', 'matfree', 'units_ref0'] if q else list(LIBRARY)
    for k, prog in enumerate(progs):
        cls = [CLASSES[k % len(CLASSES)], CLASSES[(k + 3) % len(CLASSES)]] if q else CLASSES
        for c in cls:
            for mode in ('fwd', 'rev'):
                jobs.append(dict(fn='h_scaled', params=dict(prog=prog, cls=c, mode=mode)))
    # scaling declared after the fact with set_output_solver_options, on ONE component only (so that nothing else in the model
    # forces the adder/scaler arrays to exist), and Gauss-Seidel with Aitken relaxation (first relaxation factor 1: one sweep of a
    # feed-forward group must give the exact solution)
    for prog in (['basic', 'idx_flat'] if q else ['basic', 'idx_flat', 'auto_units', 'branches', 'matfree']):
        for c in (['ref0only', 'flip'] if q else ['ref0only', 'flip', 'arr', 'pos', 'resref']):
            for mode in ('fwd', 'rev'):
                jobs.append(dict(fn='h_scaled_options', params=dict(prog=prog, cls=c, mode=mode)))
    if q:   # options given on the model for a component two levels down; an input reading part of the re-scaled output
        jobs.append(dict(fn='h_scaled_options', params=dict(prog='auto_units', cls='ref0only', mode='rev')))
        jobs.append(dict(fn='h_scaled_options', params=dict(prog='auto_units', cls='resref', mode='fwd')))
        jobs.append(dict(fn='h_scaled_options', params=dict(prog='branches', cls='ref0only', mode='fwd')))
    for prog in (['basic', 'idx_flat'] if q else ['basic', 'idx_flat', 'branches', 'auto_units']):
        for c in (['flip', 'arr'] if q else ['flip', 'arr', 'ref0only', 'pos']):
            for aitken in (True, False):
                jobs.append(dict(fn='h_nlbgs', params=dict(prog=prog, cls=c, aitken=aitken, use_apply=not aitken)))
    for prog in (['implicit_asm'] if q else list(IMPLICIT)):
        for c in ['flip2', 'arr2', 'ref0only', 'neg4'][:2 if q else 4]:
            for mode in ('fwd', 'rev'):
                jobs.append(dict(fn='h_scaled_implicit', params=dict(prog=prog, cls=c, mode=mode)))
    return jobs


def _arr(vals, shape):
    n = int(np.prod(shape))
    a = np.array([vals[i % len(vals)] for i in range(n)], dtype=object).reshape(shape)
    return a


def scaling_kwargs(cls, shape):
    if cls == 'pos':
        return dict(ref=Fr(3, 2), ref0=Fr(1, 2))
    if cls == 'flip':
        return dict(ref=Fr(-1), ref0=Fr(2), res_ref=Fr(7, 2))
    if cls == 'negref':
        return dict(ref=Fr(-3))
    if cls == 'ref0only':
        return dict(ref0=Fr(3))
    if cls == 'arr':
        return dict(ref=_arr([Fr(2), Fr(-1), Fr(1, 2)], shape), ref0=_arr([Fr(1), Fr(3), Fr(0)], shape), res_ref=_arr([Fr(-4), Fr(1), Fr(5, 2)], shape))
    if cls == 'neg4':
        return dict(ref=Fr(-4))
    if cls == 'flip2':       # dyadic: 1/(ref-ref0) and 1/res_ref are exact floats
        return dict(ref=Fr(-1), ref0=Fr(1), res_ref=Fr(-4))
    if cls == 'arr2':
        return dict(ref=_arr([Fr(2), Fr(-1), Fr(1, 2)], shape), ref0=_arr([Fr(1), Fr(3), Fr(0)], shape), res_ref=_arr([Fr(-4), Fr(1), Fr(1, 2)], shape))
    if cls == 'resref':
        return dict(res_ref=Fr(-5, 2))
    if cls == 'arr_resref1':
        return dict(ref=_arr([Fr(7), Fr(-2)], shape), ref0=_arr([Fr(-1, 4), Fr(1)], shape), res_ref=Fr(1))
    raise ValueError(cls)


def apply_scaling(P, cls):
    for it in P.items:
        if it[0] == 'comp':
            spec = it[3]
            for o, meta in spec.outs.items():
                for k in ('ref', 'ref0', 'res_ref'):
                    meta.pop(k, None)
                meta.update(scaling_kwargs(cls, meta['shape']))
    P.features = list(P.features) + ['ref/ref0/res_ref: ' + cls]
    return P


def _physical_checks(ctx, tol):
    def after_run(P, p, base):
        out, exp_in, _ = P.reference(ctx, base)
        for name, want in out.items():
            if name in base:
                continue
            ctx.eq('out:' + name, p.get_val(name), want, tol)
            ctx.eq('vec_out:' + name, p.model._outputs[name], want, tol)
        for name, want in exp_in.items():
            ctx.eq('in:' + name, p.get_val(name, from_src=False), want, tol)
        # physical residuals of a converged explicit model are zero (the vector is unscaled outside of solves)
        p.model.run_apply_nonlinear()
        for name in out:
            if name in base:
                continue
            r = p.model._residuals[name]
            ctx.eq('resid:' + name, r, 0 * np.asarray(r, dtype=object if ctx.sym else float), tol)
        # and running again does not drift (scale/unscale round trips are exact inverses)
        p.run_model()
        for o in P.ofs:
            ctx.eq('rerun:' + o, p.get_val(o), out[o], tol)
    return after_run


def h_scaled(ctx, prog, cls, mode):
    explicit_totals(ctx, lambda: apply_scaling(LIBRARY[prog](), cls), mode, after_run=_physical_checks(ctx, 1e-9))


def h_scaled_implicit(ctx, prog, cls, mode):
    from checks import C01
    import progfam.library as L
    orig = L.IMPLICIT[prog]
    C01.IMPLICIT[prog + '@' + cls] = lambda: apply_scaling(orig(), cls)
    try:
        C01.h_implicit(ctx, prog + '@' + cls, mode)
    finally:
        C01.IMPLICIT.pop(prog + '@' + cls, None)


def _one_comp_options(P, cls):
    """scaling of the FIRST component's outputs declared through System.set_output_solver_options before setup"""
    first = [it for it in P.items if it[0] == 'comp'][0]
    _, g, cname, spec, ins, style, implicit = first
    path = (g + '.' if g else '') + cname
    kws = {o: scaling_kwargs(cls, meta['shape']) for o, meta in spec.outs.items()}

    def pre_setup(p, groups, comps):
        for o, kw in kws.items():
            kw = {k: (np.array(v, dtype=float) if isinstance(v, np.ndarray) else float(v)) for k, v in kw.items()}
            p.model.set_output_solver_options(path + '.' + o, **kw)
    P.pre_setup = pre_setup
    P.features = list(P.features) + ['ref/ref0/res_ref via set_output_solver_options: ' + cls]
    return P


def h_scaled_options(ctx, prog, cls, mode):
    explicit_totals(ctx, lambda: _one_comp_options(LIBRARY[prog](), cls), mode, after_run=_physical_checks(ctx, 1e-9))


def h_nlbgs(ctx, prog, cls, aitken, use_apply):
    """Gauss-Seidel (with Aitken relaxation) on the scaled feed-forward model: one sweep solves it exactly"""
    def make():
        P = apply_scaling(LIBRARY[prog](), cls)
        mk = lambda: om.NonlinearBlockGS(maxiter=1, use_aitken=aitken, use_apply_nonlinear=use_apply, iprint=-1, err_on_non_converge=False)
        for g in {it[1] for it in P.items if it[0] == 'comp' and it[1]} | {''}:
            P.group_opts.setdefault(g, {})['nonlinear_solver'] = mk
        return P
    P = make()
    p = P.build(ctx)
    vals = P.set_indeps(ctx, p)
    # the residual norm only steers the iteration loop (C09's subject); a constant norm makes the solver do exactly maxiter=1
    # sweeps without asking the solver to compare square roots of symbolic sums
    for s in p.model.system_iter(include_self=True, recurse=True, typ=om.Group):
        if isinstance(s.nonlinear_solver, om.NonlinearBlockGS):
            s.nonlinear_solver._iter_get_norm = lambda: 1.0
    p.run_model()
    out, exp_in, _ = P.reference(ctx, vals)
    for name, want in out.items():
        if name not in vals:
            ctx.eq('out:' + name, p.get_val(name), want, 1e-9)
    for name, want in exp_in.items():
        ctx.eq('in:' + name, p.get_val(name, from_src=False), want, 1e-9)
    ctx.observe('outs', [p.get_val(o) for o in P.ofs])
