"""C13 Derivative checks report exactly what they compare."""
import numpy as np
import openmdao.api as om

from progfam.library import T
from progfam.core import Prog, In
from checks.C12 import _quotient, _truth_comp

LEVEL = 'model_checking'
EXPLANATION = ('Problem.check_partials and check_totals run on real components with symbolic inputs and a symbolic error delta injected into '
               'one analytic partial.  For every reported pair the returned J_fwd / J_rev must be the partials the component actually '
               'produced (truth + delta at the injected entry), J_fd must be the mathematical difference quotient of the component function, '
               'the reported abs error must be |J - J_fd| at the entry with the largest tolerance violation (and that violation must be the '
               'maximum over all entries), and uncovered_nz must list exactly the (row, col) positions outside the declared sparsity '
               'pattern whose finite-difference value exceeds the threshold - for all columns.  With a list of steps every J_fd[k] / error[k] must '
               'belong to steps[k]; a repeated check must report the same values and the same uncovered list, and constant declared '
               'partials must still be the declared ones afterwards.')
BOUNDS = dict(components='3x3 polynomial component: dense, rows/cols, scipy csr/coo/csc declarations; under-declared by 1-2 entries in different columns', methods='fd forward, step 2^-10 (step lists: 2^-10, 2^-13)', histories='<= 2 consecutive checks on one problem')
STUBS = ['console output suppressed (out_stream=None)', 'symx.sparse stand-ins for scipy-declared partials']
ASSUMPTIONS = ['reals']
OUTSIDE = ['text/rich formatting of the report', 'directional checks', 'cs method (C12 covers the scheme)']


def comp_prog(style, drop=(), n=3):
    P = Prog('chk')
    a = P.indep('a', (n,), kind='ivc')
    if n == 3:
        terms = {'y': [[T(1, ('x', 0, 2)), T(2, ('x', 1, 1))], [T(3, ('x', 1, 1), ('x', 2, 1))], [T(1, ('x', 0, 1)), T(-1, ('x', 2, 2)), T(4, ('x', 1, 1))]]}
    else:       # 2x2: the error arithmetic takes an argmax over all entries, which forks on every ordering of their violations
        terms = {'y': [[T(1, ('x', 0, 2)), T(2, ('x', 1, 1))], [T(3, ('x', 0, 1), ('x', 1, 1))]]}
    c = P.comp('c', '', {'x': In(a, shape=(n,))}, {'y': dict(shape=(n,))}, terms, style)
    spec = [it for it in P.items if it[0] == 'comp'][0][3]
    if drop:
        spec.drop = {('y', 'x'): [tuple(d) for d in drop]}
    P.ofs, P.wrts = [c['y'].abs], [a.abs]
    P.features = ['check_partials target']
    return P, spec


def harnesses(tier, seed):
    q = tier == 'quick'
    jobs = []
    for style in ('dense', 'sparse') if q else ('dense', 'sparse', 'sp_csr', 'sp_coo', 'sp_csc'):
        jobs.append(dict(fn='h_values', params=dict(style=style, wrong=False), max_paths=20000))
        jobs.append(dict(fn='h_values', params=dict(style=style, wrong=True), max_paths=20000))
    for style in ('sparse', 'sp_csr') if q else ('sparse', 'sp_csr', 'sp_coo', 'sp_csc'):
        for drop in ([[0, 1]], [[0, 1], [2, 2]], [[1, 2], [2, 0], [0, 0]]):
            jobs.append(dict(fn='h_uncovered', params=dict(style=style, drop=drop), max_paths=20000))
    jobs.append(dict(fn='h_totals', params=dict(wrong=True)))
    jobs.append(dict(fn='h_totals', params=dict(wrong=False)))
    for style in ('dense',) if q else ('dense', 'sparse', 'sp_csr', 'sp_coo', 'sp_csc'):
        jobs.append(dict(fn='h_steps', params=dict(style=style, what='partials'), max_paths=20000))
    jobs.append(dict(fn='h_steps', params=dict(style='dense', what='totals'), max_paths=20000))
    for decl in ('dense', 'rows_cols') if q else ('dense', 'rows_cols', 'diagonal', 'csr'):
        jobs.append(dict(fn='h_repeat', params=dict(decl=decl), max_paths=20000))
    for decl in ('rows_cols', 'csr') if q else ('rows_cols', 'csr', 'coo', 'csc'):
        for other in ('directional', 'own_step'):
            jobs.append(dict(fn='h_uncovered_options', params=dict(decl=decl, other=other), max_paths=20000))
    for style in ('sparse',) if q else ('sparse', 'sp_csr', 'sp_coo', 'sp_csc'):
        jobs.append(dict(fn='h_uncovered_repeat', params=dict(style=style, drop=[[0, 1], [2, 2]]), max_paths=20000))
    return jobs


def _install(ctx):
    if ctx.sym:
        from symx import stubs, sparse
        import openmdao.utils.general_utils as GU
        import openmdao.core.system as SY
        import openmdao.approximation_schemes.finite_difference as FDM
        import openmdao.approximation_schemes.approximation_scheme as ASM
        stubs.install_float(GU, SY, FDM, ASM)
        sparse.install()


STEP = 2.0 ** -10


def _setup(ctx, style, drop=(), wrong=False, n=3):
    _install(ctx)
    P, spec = comp_prog(style, drop, n)
    p = P.build(ctx)
    a = ctx.reals('a', n, -3, 3)
    delta = ctx.real('delta', -2, 2) if wrong else None
    if wrong:
        comp = p.model.c
        orig = comp.compute_partials

        def cp(inputs, J, *args):
            orig(inputs, J, *args)
            v = J['y', 'x']
            if hasattr(v, 'data') and not isinstance(v, np.ndarray):      # sparse value: perturb the first stored entry
                v.data[0] = v.data[0] + delta
            elif np.ndim(v) == 2:
                v[0, 1] = v[0, 1] + delta
            else:
                v[0] = v[0] + delta
        comp.compute_partials = cp
    p.set_val(P.wrts[0], a)
    p.run_model()
    return P, spec, p, a, delta


def _truth_jac(ctx, P, a):
    spec = [it for it in P.items if it[0] == 'comp'][0][3]
    Pd = spec.partials({'x': np.asarray(a)})
    n = np.asarray(a).size
    J = ctx.zeros((n, n)) if ctx.sym else np.zeros((n, n))
    for (r, c), v in Pd.get(('y', 'x'), {}).items():
        J[r, c] = v
    return J


def _absv(x):
    return x if bool(x >= 0) else -x


def h_values(ctx, style, wrong):
    P, spec, p, a, delta = _setup(ctx, style, wrong=wrong, n=2)
    data = p.check_partials(out_stream=None, method='fd', form='forward', step=STEP, abs_err_tol=1e-6, rel_err_tol=1e-6)
    d = data['c']['y', 'x']
    Jt = _truth_jac(ctx, P, a)
    want_fwd = Jt.copy()
    if wrong:
        # the injected error sits at the first stored entry of the declared pattern: (0, 1) for dense, (0, 0) otherwise
        pos = (0, 1) if style == 'dense' else (0, 0)
        want_fwd[pos] = want_fwd[pos] + delta
    ctx.eq('J_fwd_is_what_the_component_set', np.asarray(d['J_fwd']), want_fwd)
    if d.get('J_rev') is not None:
        ctx.eq('J_rev_is_what_the_component_set', np.asarray(d['J_rev']), want_fwd)
    Q = _quotient(ctx, lambda x: _truth_comp(ctx, P, 'c', {'x': x}), a, 'fd', 'forward', [ctx.const(STEP)] * 2)
    Jfd = d['J_fd']
    Jfd = Jfd[0] if isinstance(Jfd, (list, tuple)) else Jfd
    ctx.eq('J_fd_is_the_difference_quotient', np.asarray(Jfd), Q, 1e-9)
    # error arithmetic: violation_k = |J_k - Jfd_k| - (atol + rtol |Jfd_k|); reported: max violation, abs error at that entry
    Jf = np.asarray(d['J_fwd'], dtype=object if ctx.sym else float).reshape(-1)
    Jd = np.asarray(Jfd, dtype=object if ctx.sym else float).reshape(-1)
    viol = [_absv(Jf[k] - Jd[k]) - (1e-6 + 1e-6 * _absv(Jd[k])) for k in range(Jf.size)]
    tv, ae = d['tol violation'], d['abs error']
    rep_v = (tv[0] if isinstance(tv, list) else tv).forward
    rep_a = (ae[0] if isinstance(ae, list) else ae).forward
    if ctx.sym:
        from symx.values import sb, Or
        ctx.check('violation_is_an_upper_bound', all(bool(rep_v >= v) for v in viol))
        hit = [k for k in range(Jf.size) if bool(rep_v == viol[k])]
        ctx.check('violation_is_attained', len(hit) > 0)
        ctx.check('abs_error_is_the_difference_at_the_max_violation', any(bool(rep_a == _absv(Jf[k] - Jd[k])) for k in hit))
    else:
        ctx.eq('violation_is_the_maximum', rep_v, max(viol), 1e-9)
    ctx.observe('J_fwd', np.asarray(d['J_fwd']))


def h_uncovered(ctx, style, drop):
    P, spec, p, a, _ = _setup(ctx, style, drop=drop)
    data = p.check_partials(out_stream=None, method='fd', form='forward', step=STEP)
    d = data['c']['y', 'x']
    Q = _quotient(ctx, lambda x: _truth_comp(ctx, P, 'c', {'x': x}), a, 'fd', 'forward', [ctx.const(STEP)] * 3)
    thr = d.get('uncovered_threshold', 1e-16)
    declared = set(spec.pattern()[('y', 'x')]) - {tuple(x) for x in drop}
    want = set()
    for r in range(3):
        for c in range(3):
            if (r, c) not in declared and bool(_absv(Q[r, c]) > thr):
                want.add((r, c))
    got = {(int(r), int(c)) for r, c in d.get('uncovered_nz', [])}
    ctx.check('uncovered_nz_lists_exactly_the_nonzeros_outside_the_pattern', got == want, got=repr(sorted(got)), want=repr(sorted(want)))
    ctx.observe('n', len(want))


def h_totals(ctx, wrong):
    P, spec, p, a, delta = _setup(ctx, 'dense', wrong=wrong, n=2)
    data = p.check_totals(of=P.ofs, wrt=P.wrts, out_stream=None, method='fd', form='forward', step=STEP)
    d = data[P.ofs[0], P.wrts[0]]
    Jt = _truth_jac(ctx, P, a)
    if wrong:
        Jt[0, 1] = Jt[0, 1] + delta
    key = 'J_fwd' if d.get('J_fwd') is not None else 'J_rev'
    ctx.eq('J_analytic_is_compute_totals', np.asarray(d[key]), Jt)
    Q = _quotient(ctx, lambda x: _truth_comp(ctx, P, 'c', {'x': x}), a, 'fd', 'forward', [ctx.const(STEP)] * 2)
    Jfd = d['J_fd']
    Jfd = Jfd[0] if isinstance(Jfd, (list, tuple)) else Jfd
    ctx.eq('J_fd_is_the_difference_quotient', np.asarray(Jfd), Q, 1e-9)
    ctx.observe('J', np.asarray(d[key]))


def h_steps(ctx, style, what):
    """a list of steps: every reported J_fd[k] / error[k] belongs to steps[k] (the values computed for an earlier step are not
    overwritten by a later one)"""
    P, spec, p, a, delta = _setup(ctx, style, wrong=True, n=2)
    steps = [STEP, STEP / 8]
    if what == 'partials':
        d = p.check_partials(out_stream=None, method='fd', form='forward', step=steps)['c']['y', 'x']
    else:
        d = p.check_totals(of=P.ofs, wrt=P.wrts, out_stream=None, method='fd', form='forward', step=steps)[P.ofs[0], P.wrts[0]]
    ctx.check('one_J_fd_per_step', isinstance(d['J_fd'], (list, tuple)) and len(d['J_fd']) == 2, got=repr(type(d['J_fd'])))
    ctx.check('reported_steps', [float(x) for x in d['steps']] == steps, got=repr(d['steps']))
    key = 'J_fwd' if d.get('J_fwd') is not None else 'J_rev'
    Jf = np.asarray(d[key], dtype=object if ctx.sym else float).reshape(-1)
    for k, st in enumerate(steps):
        Q = _quotient(ctx, lambda x: _truth_comp(ctx, P, 'c', {'x': x}), a, 'fd', 'forward', [ctx.const(st)] * 2)
        ctx.eq(f'J_fd[{k}]_is_the_quotient_for_step[{k}]', np.asarray(d['J_fd'][k]), Q, 1e-9)
        Jd = np.asarray(d['J_fd'][k], dtype=object if ctx.sym else float).reshape(-1)
        ae = d['abs error'][k]
        rep = ae.forward if ae.forward is not None else ae.reverse
        diffs = [_absv(Jf[i] - Jd[i]) for i in range(Jf.size)]
        if ctx.sym:
            ctx.check(f'abs_error[{k}]_is_a_difference_of_step[{k}]', any(bool(rep == x) for x in diffs))
        else:
            ctx.check(f'abs_error[{k}]_is_a_difference_of_step[{k}]', any(abs(float(rep) - float(x)) <= 1e-9 * (1 + abs(float(x))) for x in diffs))
    ctx.observe('J_fd0', np.asarray(d['J_fd'][0]))


class _ConstComp(om.ExplicitComponent):
    """y = A x with a constant declared partial A + D (D: an injected error), in several declaration forms"""

    def __init__(self, A, D, decl, xp):
        super().__init__()
        self.A, self.D, self.decl, self.xp = A, D, decl, xp

    def setup(self):
        n = self.A.shape[0]
        self.add_input('x', self.xp.ones(n))
        self.add_output('y', self.xp.ones(n))
        V = self.A + self.D
        if self.decl == 'dense':
            self.declare_partials('y', 'x', val=V)
        elif self.decl == 'rows_cols':
            r, c = np.nonzero(np.ones((n, n)))
            self.declare_partials('y', 'x', rows=r, cols=c, val=V.reshape(-1))
        elif self.decl == 'diagonal':
            self.declare_partials('y', 'x', diagonal=True, val=np.array([V[i, i] for i in range(n)], dtype=V.dtype))
        else:
            import scipy.sparse as sp
            from symx import sparse as SX
            r, c = np.nonzero(np.ones((n, n)))
            self.declare_partials('y', 'x', val=(SX.csr_matrix if V.dtype == object else sp.csr_matrix)((V.reshape(-1), (r, c)), shape=(n, n)))

    def compute(self, inputs, outputs):
        x = inputs['x']
        n = self.A.shape[0]
        if self.decl == 'diagonal':
            outputs['y'] = self.xp.array([self.A[i, i] * x[i] for i in range(n)]) if self.xp is not np else np.diag(self.A) * x
        else:
            outputs['y'] = self.A.dot(x)


def h_repeat(ctx, decl):
    """constant declared partials: a second check_partials reports the same values as the first (the approximated values of the
    first check do not replace the declared ones), and every report's J_fwd is the declared constant"""
    _install(ctx)
    n = 2
    A = ctx.consts([[2.0, -1.0], [0.5, 3.0]]) if ctx.sym else np.array([[2.0, -1.0], [0.5, 3.0]])
    if decl == 'diagonal':
        A = A * np.eye(n)
    d0 = ctx.real('d0', -2, 2)
    ctx.assume((d0 >= 0.125) | (d0 <= -0.125))      # an injected error of visible size (a float replay must be able to see it)
    D = (ctx.zeros((n, n)) if ctx.sym else np.zeros((n, n)))
    D[0, 0] = d0
    p = om.Problem()
    p.model.add_subsystem('c', _ConstComp(A, D, decl, ctx.np))
    p.setup()
    p.final_setup()
    x = ctx.reals('x', n, -3, 3)
    p.set_val('c.x', x)
    p.run_model()
    want = A + D
    reps = []
    for k in range(2):
        d = p.check_partials(out_stream=None, method='fd', form='forward', step=STEP)['c']['y', 'x']
        Jfd = d['J_fd'][0] if isinstance(d['J_fd'], (list, tuple)) else d['J_fd']
        ctx.eq(f'call{k}:J_fwd_is_the_declared_constant', np.asarray(d['J_fwd']), want)
        ctx.eq(f'call{k}:J_fd_is_the_function_slope', np.asarray(Jfd), A, 1e-9)
        ae = d['abs error']
        ae = ae[0] if isinstance(ae, list) else ae
        # the reported abs error is the difference at the entry with the largest tolerance violation: |d0| or 0 here
        ctx.check(f'call{k}:abs_error', bool(ae.forward == _absv(d0)) or bool(ae.forward == 0) if ctx.sym else
                  min(abs(float(ae.forward) - abs(float(d0))), abs(float(ae.forward))) <= 1e-9)
        reps.append(d)
    J = p.compute_totals(of=['c.y'], wrt=['c.x'], return_format='array')
    ctx.eq('declared_partial_still_used_after_the_checks', np.asarray(J), want)
    ctx.observe('J', np.asarray(J))


def h_uncovered_repeat(ctx, style, drop):
    """the uncovered-nonzero list of a second check (and of a check with two steps) is the same set, without entries left over"""
    P, spec, p, a, _ = _setup(ctx, style, drop=drop)
    d1 = p.check_partials(out_stream=None, method='fd', form='forward', step=STEP)['c']['y', 'x']
    l1 = [(int(r), int(c)) for r, c in d1.get('uncovered_nz', [])]
    d2 = p.check_partials(out_stream=None, method='fd', form='forward', step=STEP)['c']['y', 'x']
    l2 = [(int(r), int(c)) for r, c in d2.get('uncovered_nz', [])]
    ctx.check('no_duplicates_first', len(l1) == len(set(l1)), got=repr(l1))
    ctx.check('second_check_reports_the_same_list', sorted(l2) == sorted(l1), first=repr(l1), second=repr(l2))
    ctx.observe('n', len(l1))


class _TwoIn(om.ExplicitComponent):
    """y = A x (+ x0^2 on row 0) + B b; dy/dx declared sparse but missing two true nonzeros; per-input check options on b only"""
    A = [[1, 2, 0], [0, 4, 5], [6, 0, 7]]
    B = [[1, 2], [3, 4], [5, 6]]
    MISSING = [(1, 2), (2, 0)]

    def __init__(self, decl, other, xp):
        super().__init__()
        self.decl, self.other, self.xp = decl, other, xp

    def _pattern(self):
        return [(r, c) for r in range(3) for c in range(3) if self.A[r][c] != 0 and (r, c) not in self.MISSING]

    def setup(self):
        self.add_input('x', self.xp.ones(3))
        self.add_input('b', self.xp.ones(2))
        self.add_output('y', self.xp.ones(3))
        pat = self._pattern()
        r, c = np.array([q[0] for q in pat]), np.array([q[1] for q in pat])
        if self.decl == 'rows_cols':
            self.declare_partials('y', 'x', rows=r, cols=c)
        else:
            import scipy.sparse as sp
            self.declare_partials('y', 'x', val=getattr(sp, self.decl + '_matrix')((np.ones(len(pat)), (r, c)), shape=(3, 3)))
        self.declare_partials('y', 'b')
        if self.other == 'directional':
            self.set_check_partial_options(wrt='b', directional=True)
        else:
            self.set_check_partial_options(wrt='b', step=2.0 ** -6, form='backward')

    def compute(self, inputs, outputs):
        x, b = inputs['x'], inputs['b']
        y = [sum(self.A[r][c] * x[c] for c in range(3)) + sum(self.B[r][k] * b[k] for k in range(2)) for r in range(3)]
        y[0] = y[0] + x[0] * x[0]
        outputs['y'] = self.xp.array(y) if self.xp is not np else np.array(y, dtype=float)

    def compute_partials(self, inputs, partials):
        x = inputs['x']
        pat = self._pattern()
        vals = [self.A[r][c] + (2 * x[0] if (r, c) == (0, 0) else 0) for r, c in pat]
        if self.decl == 'rows_cols':
            partials['y', 'x'] = self.xp.array(vals) if self.xp is not np else np.array(vals, dtype=float)
        else:
            v = partials['y', 'x']
            r, c = np.array([q[0] for q in pat]), np.array([q[1] for q in pat])
            if self.xp is not np:
                from symx import sparse as SX
                partials['y', 'x'] = getattr(SX, self.decl + '_matrix')((self.xp.array(vals), (r, c)), shape=(3, 3))
            else:
                import scipy.sparse as sp
                partials['y', 'x'] = getattr(sp, self.decl + '_matrix')((np.array(vals, dtype=float), (r, c)), shape=(3, 3))
        partials['y', 'b'] = self.xp.array(self.B) if self.xp is not np else np.array(self.B, dtype=float)


def h_uncovered_options(ctx, decl, other):
    """check options given for ANOTHER input of the component (a directional check, its own step/form) do not change the audit
    of this input's declared pattern"""
    _install(ctx)
    p = om.Problem()
    p.model.add_subsystem('c', _TwoIn(decl, other, ctx.np))
    p.setup()
    p.final_setup()
    x = ctx.reals('x', 3, -3, 3)
    b = ctx.reals('b', 2, -3, 3)
    p.set_val('c.x', x)
    p.set_val('c.b', b)
    p.run_model()
    data = p.check_partials(out_stream=None, method='fd', form='forward', step=STEP)
    d = data['c']['y', 'x']
    got = {(int(r), int(c)) for r, c in d.get('uncovered_nz', [])}
    want = set(_TwoIn.MISSING)        # both missing entries are nonzero constants of the function
    ctx.check('uncovered_nz_lists_exactly_the_nonzeros_outside_the_pattern', got == want, got=repr(sorted(got)), want=repr(sorted(want)))
    Jfd = d['J_fd'][0] if isinstance(d['J_fd'], (list, tuple)) else d['J_fd']
    Jfd = np.asarray(Jfd, dtype=object if ctx.sym else float)
    for r, c in _TwoIn(decl, other, ctx.np)._pattern():
        w = _TwoIn.A[r][c] + ((2 * x[0] + STEP) if (r, c) == (0, 0) else 0)
        ctx.eq(f'J_fd[{r},{c}]', Jfd[r, c], w, 1e-9)
    ctx.observe('n', len(got))
