"""C12 FD and complex-step approximations are faithful and side-effect free."""
from fractions import Fraction as Fr

import numpy as np
import openmdao.api as om

from progfam.library import T, q22, q2s, q32, q33
from progfam.core import Prog, In

LEVEL = 'model_checking'
EXPLANATION = ('Programs whose partials (component level) or totals (group / model level, approx_totals) are approximated by the real '
               'FiniteDifference / ComplexStep schemes are run symbolically.  Oracle: the same difference quotient (forward, backward, '
               'central with the documented coefficients and step; Im f(x + i h)/h for complex step) evaluated on the ground-truth '
               'evaluator of the program - so the returned jacobian must be EXACTLY the mathematical difference quotient of the true '
               'function for every input (which implies: exact for affine functions with forward/backward, for quadratics with central, '
               'truncation error equal to the textbook term otherwise).  Side-effect freedom: the complete input, output and residual '
               'vectors after the call are the same terms as before.  Colored approximation (coloring detected at a fixed generic '
               'point) returns the same matrix as the uncolored one.')
BOUNDS = dict(programs='two-component chains with polynomial components of degree <= 3, sizes <= 3', methods='fd forward/backward/central (order default), cs', step_calc='abs (symbolic data), rel_avg / rel_element (forks on signs)',
              steps='1e-6 default and 1/1024 (fd), 1e-40 (cs)')
STUBS = ['symbolic complex numbers (cs)', 'module-global float/complex pass-through where the schemes convert steps']
ASSUMPTIONS = ['reals: the difference quotient is evaluated exactly (no cancellation error), so agreement is exact up to the 1e-9 margin for inexact step constants']
OUTSIDE = ['accuracy of the approximation on non-polynomial functions', 'directional approximations', 'rel_legacy (norm of the variable: sqrt)', 'minimum_step switching at exactly zero inputs is covered only through the rel_* paths']


def prog(style1='dense', style2='dense', approx=None):
    P = Prog('approx')
    a = P.indep('a', (2,), kind='ivc')
    c1 = P.comp('c1', 'g', {'x': In(a, shape=(2,))}, {'y': dict(shape=(2,))},
                {'y': [[T(1, ('x', 0, 2)), T(2, ('x', 0, 1), ('x', 1, 1))], [T(3, ('x', 1, 1)), T(-1, ('x', 0, 3))]]}, style1)
    c2 = P.comp('c2', 'g', {'u': In(c1['y'], [([1, 0], True)], shape=(2,), via='connect_local')}, {'z': dict(shape=(2,))},
                {'z': [[T(1, ('u', 0, 1), ('u', 1, 1)), T(1, ('u', 0, 1))], [T(2, ('u', 1, 2)), T(-3, ('u', 0, 1))]]}, style2)
    P.ofs, P.wrts = [c2['z'].abs], [a.abs]
    P.features = ['approximated derivatives']
    return P


def prog_diag():
    """elementwise chain of size 3: the total jacobian is diagonal, so a coloring needs 1 solve instead of 3"""
    P = Prog('approx_diag')
    a = P.indep('a', (3,), kind='ivc')
    c1 = P.comp('c1', 'g', {'x': In(a, shape=(3,))}, {'y': dict(shape=(3,))},
                {'y': [[T(1, ('x', i, 2)), T(2, ('x', i, 1))] for i in range(3)]}, 'dense')
    c2 = P.comp('c2', 'g', {'u': In(c1['y'], shape=(3,), via='connect_local')}, {'z': dict(shape=(3,))},
                {'z': [[T(1, ('u', i, 3)), T(-3, ('u', i, 1))] for i in range(3)]}, 'dense')
    P.ofs, P.wrts = [c2['z'].abs], [a.abs]
    P.features = ['approximated derivatives', 'diagonal total jacobian']
    return P


def harnesses(tier, seed):
    q = tier == 'quick'
    jobs = []
    cfgs = [('fd', 'forward', 'abs', 2 ** -10), ('fd', 'backward', 'abs', 2 ** -10), ('fd', 'central', 'abs', 2 ** -10), ('cs', 'na', 'abs', 1e-40),
            ('fd', 'forward', 'abs', 1e-6)]
    if not q:       # relative steps fork on the sign of every input element and need nonlinear reasoning (~200 s of solver time each)
        cfgs += [('fd', 'central', 'abs', 1e-6), ('fd', 'forward', 'rel_avg', 2 ** -10), ('fd', 'central', 'rel_element', 2 ** -10)]
    for method, form, sc, step in cfgs:
        for level in ('partials', 'group', 'model'):
            if level != 'partials' and sc != 'abs':
                continue
            jobs.append(dict(fn='h_approx', params=dict(method=method, form=form, step_calc=sc, step=step, level=level), max_paths=20000))
    jobs.append(dict(fn='h_colored', params=dict(method='fd')))
    jobs.append(dict(fn='h_colored', params=dict(method='cs')))
    # a component that colors the partials of SOME inputs and approximates another input with its own, different, settings
    for after in (True, False):
        jobs.append(dict(fn='h_colored_subset', params=dict(other_declared_after=after)))
    return jobs


def _install(ctx):
    if ctx.sym:
        from symx import stubs
        import openmdao.utils.general_utils as GU
        import openmdao.core.system as SY
        import openmdao.approximation_schemes.complex_step as CSM
        import openmdao.approximation_schemes.finite_difference as FDM
        import openmdao.approximation_schemes.approximation_scheme as ASM
        stubs.install_float(GU, SY, FDM, ASM, CSM)
        for m in (CSM, ASM):
            m.complex = stubs.PassComplex


def _truth(ctx, P, a):
    out, _, _ = P.reference(ctx, {P.wrts[0]: a})
    if ctx.sym:
        return np.asarray(out[P.ofs[0]], dtype=object).reshape(-1)
    r = np.asarray(out[P.ofs[0]])          # complex values (the complex-step oracle of a float replay) are kept
    return (r if np.iscomplexobj(r) else r.astype(float)).reshape(-1)


def _quotient(ctx, f, a, method, form, steps):
    """the mathematical difference quotient of f at a; steps[j] = step used for column j"""
    n = a.size
    f0 = f(a)
    cols = []
    for j in range(n):
        h = steps[j]

        def at(k):
            b = np.array(a, dtype=object if ctx.sym else float).copy()
            b[j] = b[j] + k * h
            return f(b)
        if method == 'cs':
            from symx.values import SC, SR
            if ctx.sym:
                b = np.empty(n, dtype=object)
                for i in range(n):
                    b[i] = SC(SR.lift(a[i]), SR.lift(h if i == j else 0))
                cols.append(np.array([SC.lift(v).im / h for v in f(b)], dtype=object))
            else:
                b = np.array(a, dtype=complex)
                b[j] += 1j * h
                cols.append(np.array([complex(v).imag / h for v in f(b)]))
        elif form == 'forward':
            cols.append((at(1) - f0) / h)
        elif form == 'backward':
            cols.append((f0 - at(-1)) / h)
        else:
            cols.append((at(1) - at(-1)) / (2 * h))
    return np.stack(cols, axis=1)


def _snap(p):
    m = p.model
    return [m._inputs.asarray(copy=True), m._outputs.asarray(copy=True), m._residuals.asarray(copy=True)]


def h_approx(ctx, method, form, step_calc, step, level):
    _install(ctx)
    style = f'approx:{method}:{form}:{step_calc}:{step!r}' if level == 'partials' else 'dense'
    P = prog(style, style)

    def pre_setup(p, groups, comps):
        kw = dict(method=method, step=step)
        if method == 'fd':
            kw.update(form=form, step_calc=step_calc)
        if level == 'group':
            groups['g'].approx_totals(**kw)
        elif level == 'model':
            p.model.approx_totals(**kw)
    P.pre_setup = pre_setup
    p = P.build(ctx, force_alloc_complex=(method == 'cs'))
    a = ctx.reals('a', 2, -4, 4)
    p.set_val(P.wrts[0], a)
    p.run_model()
    p.model.run_apply_nonlinear()
    if level != 'partials':
        # residuals left over from an unconverged state: group-level approximations re-run the solve at every point and must
        # put back what was there
        r = p.model._residuals.asarray()
        for k in range(r.size):
            r[k] = ctx.const(0.125 * (k + 1)) if ctx.sym else 0.125 * (k + 1)
    before = _snap(p)
    J = np.asarray(p.compute_totals(of=P.ofs, wrt=P.wrts, return_format='array'))
    after = _snap(p)
    for nm, x, y in zip(('inputs', 'outputs', 'residuals'), before, after):
        ctx.eq(f'unchanged:{nm}', y, x)
    # oracle
    hc = ctx.const(step)
    if level == 'partials':
        # each component is approximated separately, the framework chains them: J = Q2(y) . Q1(a) with u = y[[1, 0]]
        def f1(x):
            return _truth_comp(ctx, P, 'c1', {'x': x})

        def f2(u):
            return _truth_comp(ctx, P, 'c2', {'u': u})
        y = f1(a)
        u = y[[1, 0]]
        Q1 = _quotient(ctx, f1, a, method, form, _steps(ctx, a, step_calc, hc))
        Q2 = _quotient(ctx, f2, u, method, form, _steps(ctx, u, step_calc, hc))
        want = Q2.dot(Q1[[1, 0], :])
    elif level == 'group':
        # the group g is approximated as a whole wrt its input c1.x
        want = _quotient(ctx, lambda x: _truth(ctx, P, x), a, method, form, [hc] * 2)
    else:
        want = _quotient(ctx, lambda x: _truth(ctx, P, x), a, method, form, [hc] * 2)
    ctx.eq('J_is_the_difference_quotient', J, want, 1e-9)
    ctx.observe('J', J)


def _steps(ctx, x, step_calc, h):
    n = x.size
    if step_calc == 'abs':
        return [h] * n
    ab = [(v if bool(v >= 0) else -v) for v in x]
    if step_calc == 'rel_avg':
        s = h * sum(ab) / n
        mn = ctx.const(1e-12)
        s = s if bool(s >= mn) else mn
        return [s] * n
    out = []
    for v in ab:
        s = v * h
        mn = ctx.const(1e-12)
        out.append(s if bool(s >= mn) else mn)
    return out


def _truth_comp(ctx, P, cname, ivals):
    for it in P.items:
        if it[0] == 'comp' and it[2] == cname:
            spec = it[3]
            arr = (lambda v: np.array(v, dtype=object)) if ctx.sym else (lambda v: np.array(v))
            r = spec.evaluate({k: np.asarray(v) for k, v in ivals.items()}, arr)
            return np.asarray(list(r.values())[0]).reshape(-1)
    raise KeyError(cname)


def h_colored(ctx, method):
    """approximated totals with a declared coloring == without"""
    _install(ctx)
    res = {}
    a = None
    for colored in (False, True):
        P = prog_diag()

        def pre_setup(p, groups, comps, colored=colored):
            p.model.approx_totals(method=method, step=2 ** -10 if method == 'fd' else 1e-40)
            if colored:
                p.model.declare_coloring(wrt='*', method=method, step=2 ** -10 if method == 'fd' else 1e-40, show_summary=False, show_sparsity=False,
                                         num_full_jacs=2, tol=1e-20)
        P.pre_setup = pre_setup
        p = P.build(ctx, force_alloc_complex=(method == 'cs'))
        # sparsity/coloring is detected at a fixed generic point first
        p.set_val(P.wrts[0], ctx.consts([0.37, -1.2, 2.1]))
        p.run_model()
        p.compute_totals(of=P.ofs, wrt=P.wrts)
        if a is None:
            a = ctx.reals('a', 3, -4, 4)
        p.set_val(P.wrts[0], a)
        p.run_model()
        res[colored] = np.asarray(p.compute_totals(of=P.ofs, wrt=P.wrts, return_format='array'))
        if colored:
            ctx.check('coloring_in_use', p.model._coloring_info.coloring is not None)
    ctx.eq('colored==uncolored', res[True], res[False], 1e-9)
    ctx.observe('J', res[False])


class _Subset(om.ExplicitComponent):
    """y_i = x_i^3 + 2 x_i + z0 x_i + z1^3: diagonal wrt x (colorable), dense wrt z"""

    def __init__(self, colored, after, xp):
        super().__init__()
        self.colored, self.after, self.xp = colored, after, xp

    def setup(self):
        self.add_input('x', self.xp.ones(3))
        self.add_input('z', self.xp.ones(2))
        self.add_output('y', self.xp.ones(3))
        kw = dict(method='fd', form='forward', step=2.0 ** -10)

        def other():
            self.declare_partials('y', 'z', method='fd', form='central', step=2.0 ** -3)
        if not self.after:
            other()
        if self.colored:
            self.declare_coloring(wrt='x*', show_summary=False, show_sparsity=False, num_full_jacs=2, tol=1e-20, **kw)
        else:
            self.declare_partials('y', 'x', **kw)
        if self.after:
            other()

    def compute(self, inputs, outputs):
        x, z = inputs['x'], inputs['z']
        outputs['y'] = x * x * x + 2 * x + z[0] * x + z[1] * z[1] * z[1]


def h_colored_subset(ctx, other_declared_after):
    """partial coloring: the colored columns use the settings given to declare_coloring, whatever other approximations the
    component declares, in whatever order"""
    _install(ctx)
    res = {}
    x = z = None
    for colored in (False, True):
        p = om.Problem()
        p.model.add_subsystem('c', _Subset(colored, other_declared_after, ctx.np))
        p.setup()
        p.final_setup()
        p.set_val('c.x', ctx.consts([0.37, -1.2, 2.1]))
        p.set_val('c.z', ctx.consts([0.8, -0.45]))
        p.run_model()
        p.compute_totals(of=['c.y'], wrt=['c.x', 'c.z'])
        if x is None:
            x, z = ctx.reals('x', 3, -4, 4), ctx.reals('z', 2, -4, 4)
        p.set_val('c.x', x)
        p.set_val('c.z', z)
        p.run_model()
        res[colored] = p.compute_totals(of=['c.y'], wrt=['c.x', 'c.z'], return_format='flat_dict')
        if colored:
            ctx.check('coloring_in_use', p.model.c._coloring_info.coloring is not None)
    for k in res[False]:
        ctx.eq(f'colored==uncolored{list(k)}', res[True][k], res[False][k], 1e-9)
    # and the uncolored reference is the forward quotient with the declared step
    h = 2.0 ** -10
    for i in range(3):
        want = ((x[i] + h) * (x[i] + h) * (x[i] + h) - x[i] * x[i] * x[i]) / h + 2 + z[0]
        ctx.eq(f'forward_quotient[{i}]', res[True]['c.y', 'c.x'][i, i], want, 1e-9)
    ctx.observe('J', np.asarray(res[False]['c.y', 'c.x']))
