"""C11 Assembled Jacobian formats represent the same linear operator."""
import numpy as np
import openmdao.api as om

from progfam.library import LIBRARY, T, q22, q2s, q32, q33
from progfam.core import Prog, In

LEVEL = 'model_checking'
EXPLANATION = ('The same program is built five times: with the matrix-free dictionary jacobian and with assembled jacobians of type dense, '
               'csc, csr (and dense/csc inside a DirectSolver group).  Sub-jacobians are declared dense, rows/cols (incl. a duplicated '
               '(row, col) entry), constant, and as scipy COO/CSR/CSC values; connections carry src_indices (duplicates, negatives) and '
               'unit factors.  With symbolic partial-derivative values (the inputs are symbolic) and symbolic seed vectors, '
               'run_apply_linear of the root must give the same d_residuals in fwd and the same d_outputs in rev for every format, '
               'the assembled matrices must densify to the same matrix, and the same must hold again after the model is moved to a '
               'second symbolic point and re-linearized (repeated update).')
BOUNDS = dict(programs='fmt_mix (all subjac kinds in one model), idx_flat, auto_units, basic_scaled, units_ref0', vector_length='<= 12')
STUBS = ['symx.sparse stand-ins for scipy.sparse (structure computed by SciPy, payload symbolic, matvec/transposes re-implemented and self-tested against SciPy)']
ASSUMPTIONS = ['reals; 1e-9 margin with unit factors / solver scaling']
OUTSIDE = ["SciPy's own sparse matvec kernels (replaced by the stand-ins)", 'real<->complex dtype switches of the assembled matrix (an object array has no dtype to switch)', 'PETSc matrices']


def fmt_mix():
    P = Prog('fmt_mix')
    a = P.indep('a', (3,), kind='ivc')
    c1 = P.comp('c1', '', {'x': In(a, shape=(3,))}, {'y': dict(shape=(3,), units='m')}, {'y': q33('x')}, 'sp_csr')
    c2 = P.comp('c2', '', {'u': In(c1['y'], [([2, 0, 2], True)], shape=(3,), units='cm')}, {'z': dict(shape=(2,))}, {'z': q32('u')}, 'sparse')
    c3 = P.comp('c3', '', {'u': In(c1['y'], shape=(3,))}, {'w': dict(shape=(3,))}, {'w': q33('u')}, 'sp_coo')
    c4 = P.comp('c4', '', {'p': In(c2['z'], shape=(2,)), 'q': In(c3['w'], [([-1, 0], True)], shape=(2,))}, {'f': dict(shape=(2,))},
                {'f': [[T(1, ('p', 0, 1), ('q', 1, 1)), T(2, ('p', 1, 1))], [T(1, ('q', 0, 2)), T(-1, ('p', 0, 1))]]}, 'sp_csc')
    c5 = P.comp('c5', '', {'v': In(c4['f'], shape=(2,))}, {'g': dict(shape=(2,))}, {'g': [[T(2, ('v', 0, 1)), T(-1, ('v', 1, 1))], [T(3, ('v', 1, 1))]]}, 'const')
    P.ofs, P.wrts = [c5['g'].abs], [a.abs]
    P.features = ['scipy csr/coo/csc declared partials', 'constant partials', 'src_indices with duplicates/negatives', 'unit factor']
    return P


PROGS = {'fmt_mix': fmt_mix}
FORMATS = ['dict', 'dense', 'csc', 'csr']


def harnesses(tier, seed):
    q = tier == 'quick'
    progs = ['fmt_mix', 'idx_flat', 'auto_units', 'basic_scaled', 'idx_nonflat'] if q else ['fmt_mix', 'idx_flat', 'auto_units', 'basic_scaled', 'units_ref0', 'idx_nonflat', 'promote_chain', 'temp_offset']
    jobs = [dict(fn='h_formats', params=dict(prog=p)) for p in progs]
    jobs.append(dict(fn='h_selftest', params={}))
    return jobs


def _make(prog):
    return PROGS[prog]() if prog in PROGS else LIBRARY[prog]()


def _build(ctx, prog, fmt, mode):
    P = _make(prog)
    if fmt != 'dict':
        P.group_opts.setdefault('', {})['linear_solver'] = lambda: om.ScipyKrylov(assemble_jac=True)
        P.group_opts['']['assembled_jac_type'] = fmt

    def pre_setup(p, groups, comps):
        pass
    p = P.build(ctx, mode=mode)
    if ctx.sym:
        from symx import sparse
        sparse.convert_declared(p.model)
    p.final_setup()
    return P, p


def h_selftest(ctx):
    from symx import sparse
    errs = sparse.selftest()
    ctx.check('sparse_standins_match_scipy', not errs, errs=repr(errs))
    ctx.observe('n', len(errs))


def h_formats(ctx, prog):
    if ctx.sym:
        from symx import stubs
        stubs.install_lu()
    probs = {}
    for mode in ('fwd', 'rev'):
        for fmt in FORMATS:
            probs[fmt, mode] = _build(ctx, prog, fmt, mode)
    P0, p0 = probs['dict', 'fwd']
    tol = 1e-9 if (P0.uses_units() or any('ref' in f for f in P0.features)) else 0
    no, ni = len(p0.model._doutputs), len(p0.model._dinputs)
    for rnd in range(2):                       # two linearization points: the second one is a repeated update
        vals = None
        for (fmt, mode), (P, p) in probs.items():
            if vals is None:
                vals = P.set_indeps(ctx, p, tag=f'x{rnd}')
            else:
                for k, v in vals.items():
                    p.set_val(k, v)
            p.run_model()
            p.model.run_linearize()
        u = ctx.reals(f'u{rnd}', no, -5, 5)
        w = ctx.reals(f'w{rnd}', no, -5, 5)
        res = {}
        for (fmt, mode), (P, p) in probs.items():
            m = p.model
            if mode == 'fwd':
                m._doutputs.set_val(u)
                m._dinputs.set_val(0.0)
                m._dresiduals.set_val(0.0)
                m.run_apply_linear('fwd')
                res[fmt, mode] = m._dresiduals.asarray(copy=True)
            else:
                m._dresiduals.set_val(w)
                m._doutputs.set_val(0.0)
                m._dinputs.set_val(0.0)
                m.run_apply_linear('rev')
                res[fmt, mode] = m._doutputs.asarray(copy=True)
            for v in (m._doutputs, m._dinputs, m._dresiduals):
                v.set_val(0.0)
        for mode in ('fwd', 'rev'):
            for fmt in FORMATS[1:]:
                ctx.eq(f'[{rnd}]{mode}:{fmt}==dict', res[fmt, mode], res['dict', mode], tol)
        # <w, A u> == <A^T w, u> across formats as well
        lhs = sum(a * b for a, b in zip(w, res['csc', 'fwd']))
        rhs = sum(a * b for a, b in zip(res['csr', 'rev'], u))
        ctx.eq(f'[{rnd}]adjoint_csc_fwd_vs_csr_rev', lhs, rhs, tol)
        # the assembled matrices densify to the same matrix
        dens = {}
        for fmt in FORMATS[1:]:
            jac = probs[fmt, 'fwd'][1].model._get_jacobian()
            lst = jac.todense() if hasattr(jac, 'todense') else None
            dens[fmt] = lst
        if all(d is not None for d in dens.values()):
            for fmt in ('csc', 'csr'):
                a, b = dens[fmt], dens['dense']
                a = a if isinstance(a, (list, tuple)) else [a]
                b = b if isinstance(b, (list, tuple)) else [b]
                for k, (x, y) in enumerate(zip(a, b)):
                    ctx.eq(f'[{rnd}]todense:{fmt}[{k}]', np.asarray(x), np.asarray(y), tol)
        if rnd == 0:
            ctx.observe('fwd', res['dict', 'fwd'])
