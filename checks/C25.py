"""C25 KS aggregation brackets the extremum and has exact gradients."""
import numpy as np
import openmdao.api as om
from openmdao.components.ks_comp import KSfunction

from symx.values import SR

LEVEL = 'model_checking'
EXPLANATION = ('KSfunction.compute/derivatives and KSComp (through a real Problem: run_model + compute_totals in fwd '
               'and rev) executed on symbolic g, rho > 0 and upper; exp/log are opaque atoms constrained by '
               'instantiated axioms (positivity, monotonicity, exp(0)=1, log(1)=0); z3 proves the bracket '
               'max g <= KS <= max g + ln(n)/rho (mirrored for minimum / lower_flag) on every path and that the '
               'returned partials equal the chain-rule derivative of the returned value.')
BOUNDS = dict(width='<= 3 (thorough 4)', vec_size='<= 2', options='minimum x lower_flag x upper symbolic')
STUBS = ['exp/log as atoms with instantiated axioms (only consequences of those axioms are claimed)']
ASSUMPTIONS = ['rho > 0', 'reals, no overflow (the max-shift exists for overflow; real arithmetic cannot see it)']
OUTSIDE = ['KSfunction.derivatives()[1] (d/d rho): rho is an option, not a differentiable input of the component; '
           'observed: the helper omits the -ln(S)/rho^2 term, not reported because no component output depends on it',
           'jax_funcs/ks.py ks_max/ks_min (jax tracing cannot carry proxies)', 'overflow behaviour for huge magnitudes']


def harnesses(tier, seed):
    jobs = []
    for n in ((1, 2, 3) if tier == 'quick' else (1, 2, 3, 4)):
        jobs.append(dict(fn='h_function', params=dict(n=n, vec=1)))
    jobs.append(dict(fn='h_function', params=dict(n=2, vec=2)))
    for minimum in (False, True):
        for lower_flag in (False, True):
            for (n, vec) in (((2, 1), (3, 1), (2, 2)) if tier == 'quick' else ((2, 1), (3, 1), (2, 2), (3, 2), (4, 1))):
                for mode in ('fwd', 'rev'):
                    if tier == 'quick' and mode == 'rev' and (n, vec) != (2, 2):
                        continue
                    jobs.append(dict(fn='h_comp', params=dict(n=n, vec=vec, minimum=minimum, lower_flag=lower_flag, mode=mode)))
    return jobs


def _max(xs):
    m = xs[0]
    for x in xs[1:]:
        m = x if (x > m) else m
    return m


def _log_n(ctx, n):
    if ctx.sym:
        return SR.const(n).log()
    return float(np.log(n))


def h_function(ctx, n, vec):
    g = ctx.reals('g', (vec, n), -50, 50)
    rho = ctx.real('rho')
    ctx.assume(rho > 0)
    ks = KSfunction.compute(g, rho)
    dg, drho = KSfunction.derivatives(g, rho)
    ln = _log_n(ctx, n)
    for r in range(vec):
        gm = _max([g[r, i] for i in range(n)])
        k = ks[r, 0]
        ctx.check(f'lower[{r}]', k >= gm)
        ctx.check(f'upper[{r}]', k <= gm + ln / rho)
        for i in range(n):
            def fd(delta, r=r, i=i):
                g2 = g.copy()
                g2[r, i] = g2[r, i] + delta
                return KSfunction.compute(g2, rho)[r, 0]
            ctx.deriv(f'dKS_dg[{r},{i}]', dg[r, i], k, g[r, i], fd)
        # the gradient is a convex combination: entries in [0,1] summing to 1
        s = 0
        for i in range(n):
            ctx.check(f'dg_in_01[{r},{i}]', (dg[r, i] >= 0) & (dg[r, i] <= 1) if ctx.sym else 0 <= dg[r, i] <= 1)
            s = s + dg[r, i]
        ctx.eq(f'dg_sums_to_1[{r}]', s, 1)
    ctx.observe('ks', ks)
    ctx.observe('dg', dg)


def h_comp(ctx, n, vec, minimum, lower_flag, mode):
    g = ctx.reals('g', (vec, n), -50, 50)
    rho = ctx.real('rho')
    upper = ctx.real('upper', -10, 10)
    ctx.assume(rho > 0)
    def run(gv):
        p = om.Problem()
        comp = om.KSComp(width=n, vec_size=vec, minimum=minimum, lower_flag=lower_flag)
        if ctx.sym:
            comp.options._dict['rho']['val'] = rho
            comp.options._dict['upper']['val'] = upper
        else:
            comp.options['rho'] = rho
            comp.options['upper'] = upper
        p.model.add_subsystem('ks', comp)
        p.setup(mode=mode)
        p.set_val('ks.g', gv)
        p.run_model()
        return p, p.get_val('ks.KS')
    p, ks = run(g)
    J = p.compute_totals(of=['ks.KS'], wrt=['ks.g'], return_format='array')
    ln = _log_n(ctx, n)
    for r in range(vec):
        con = [g[r, i] - upper for i in range(n)]
        if lower_flag:
            con = [-c for c in con]
        k = ks[r, 0]
        if not minimum:
            m = _max(con)
            ctx.check(f'lower[{r}]', k >= m)
            ctx.check(f'upper[{r}]', k <= m + ln / rho)
        else:
            # minimum: the result is -KS(-con), which brackets min(con) from below
            neg = [-c for c in con]
            m = -_max(neg)            # = min(con)
            ctx.check(f'upper[{r}]', k <= m)
            ctx.check(f'lower[{r}]', k >= m - ln / rho)
        for r2 in range(vec):
            for i in range(n):
                def fd(delta, r=r, r2=r2, i=i):
                    g2 = g.copy()
                    g2[r2, i] = g2[r2, i] + delta
                    return run(g2)[1][r, 0]
                ctx.deriv(f'J[{r},{r2},{i}]', J[r, r2 * n + i], k, g[r2, i], fd)
    ctx.observe('ks', ks)
    ctx.observe('J', J)
