"""C27 Option declarations are enforced and temporary values always restored."""
import numbers

import numpy as np
from openmdao.utils.options_dictionary import OptionsDictionary

LEVEL = 'model_checking'
EXPLANATION = ('The real OptionsDictionary (declare, __setitem__, __getitem__, _assert_valid, set, update, temporary, '
               '_handle_deprecation) executed with symbolic numeric candidates, bounds, allowed-value tuples and check_valid '
               'thresholds; which declaration features are present, the candidate kind (number / None / str / bool) and where an '
               'exception is raised (inside the with-body, or during entry because a later temporary value is invalid) are '
               'enumerated.  Reference: the acceptance predicate written from the docstring of declare(); obligations: assignment '
               'succeeds iff the predicate holds, a rejected assignment leaves the previous value, and after every exit of a '
               'temporary() block - normal, exception in the body, exception during entry, nested - every option equals its '
               'pre-block value and no cached value is left behind.')
BOUNDS = dict(options='<= 2 declared options (+ a deprecated alias)', candidates='symbolic reals, None, a str, a bool', history='<= 3 operations, temporary blocks nested <= 2')
STUBS = ['symbolic reals are registered as numbers.Number so that types=numbers.Number accepts them']
ASSUMPTIONS = ['numbers are mathematical reals']
OUTSIDE = ['error-message text', 'recordable / set_function / to_table formatting', 'symbolic strings (CrossHair could not confirm them within its budget; candidates of type str are concrete)']
DESIGN_REF = 'DESIGN.md section 5 (C27) and section 10'


def harnesses(tier, seed):
    jobs = []
    q = tier == 'quick'
    for decl in ('bounds', 'lower', 'upper', 'values', 'types_num', 'types_str', 'types_tuple', 'plain', 'bounds_types', 'check_valid', 'bounds_check_valid'):
        for cand in ('num', 'none', 'str', 'bool', 'list'):
            for allow_none in (False, True):
                if q and cand in ('str', 'bool', 'list') and allow_none:
                    continue
                jobs.append(dict(fn='h_assign', params=dict(decl=decl, cand=cand, allow_none=allow_none)))
    for ro in (False, True):
        jobs.append(dict(fn='h_readonly_alias', params=dict(read_only=ro)))
    for exit_kind in ('normal', 'body_raises'):
        jobs.append(dict(fn='h_temporary_alias', params=dict(exit_kind=exit_kind)))
    for exit_kind in ('normal', 'body_raises', 'entry_second_invalid', 'entry_first_invalid', 'entry_undeclared'):
        for nested in (False, True):
            jobs.append(dict(fn='h_temporary', params=dict(exit_kind=exit_kind, nested=nested)))
    jobs.append(dict(fn='h_update_set', params={}))
    return jobs


class _Boom(Exception):
    pass


def _num_ok(v):
    return not isinstance(v, (str, bool, type(None)))


def _declare(ctx, opts, name, decl, allow_none, default):
    """declare option `name`; returns the reference predicate valid(value) -> bool (Python bool, may fork)"""
    lo = up = vals = types = chk = None
    thr = None
    if decl in ('bounds', 'lower', 'bounds_types', 'bounds_check_valid'):
        lo = ctx.real(name + '_lo', -100, 100)
    if decl in ('bounds', 'upper', 'bounds_types', 'bounds_check_valid'):
        up = ctx.real(name + '_up', -100, 100)
    if lo is not None and up is not None:
        ctx.assume(lo <= up)
    if decl == 'values':
        vals = (ctx.real(name + '_v0', -100, 100), ctx.real(name + '_v1', -100, 100), 'auto')
    if decl in ('types_num', 'bounds_types'):
        types = numbers.Number
    if decl == 'types_str':
        types = str
    if decl == 'types_tuple':
        types = (numbers.Number, str)
    if decl in ('check_valid', 'bounds_check_valid'):
        thr = ctx.real(name + '_thr', -100, 100)

        def chk(nm, value):
            if value is not None and not isinstance(value, (str, list)) and bool(value > thr):
                raise ValueError('check_valid: too large')
    kw = {}
    if default is not None:
        kw['default'] = default
    opts.declare(name, values=vals, types=types, lower=lo, upper=up, check_valid=chk, allow_none=allow_none, **kw)

    def valid(v):
        if isinstance(v, list):
            # no declaration in this harness has types=list: a list can only be accepted by an option without values/types/bounds
            if vals is not None or types is not None or lo is not None or up is not None:
                return False
            return True
        if not (v is None and allow_none):
            if vals is not None:
                if isinstance(v, str):
                    if v not in [x for x in vals if isinstance(x, str)]:
                        return False
                elif v is None or isinstance(v, bool):
                    if not any((x is not None and not isinstance(x, str) and bool(x == v)) for x in vals):
                        return False
                else:
                    if not any((not isinstance(x, str)) and bool(x == v) for x in vals):
                        return False
            elif types is not None:
                tt = types if isinstance(types, tuple) else (types,)
                if v is None:
                    return False
                if isinstance(v, str):
                    if str not in tt:
                        return False
                elif numbers.Number not in tt:      # bool and symbolic numbers are Numbers
                    return False
            if up is not None:
                if v is None or isinstance(v, str):
                    return False            # comparison with a bound is impossible: cannot be accepted
                if bool(v > up):
                    return False
            if lo is not None:
                if v is None or isinstance(v, str):
                    return False
                if bool(v < lo):
                    return False
        if thr is not None and v is not None and not isinstance(v, str) and bool(v > thr):
            return False
        return True
    return valid


def _candidate(ctx, cand, tag='c'):
    if cand == 'num':
        return ctx.real(tag, -100, 100)
    if cand == 'none':
        return None
    if cand == 'str':
        return 'auto' if ctx.boolean(tag + '_is_auto') else 'other'
    if cand == 'list':
        # a list of individually acceptable values (or an empty list): only acceptable where the declaration says types=list
        return ['auto', 'auto'] if ctx.boolean(tag + '_nonempty') else []
    return bool(ctx.boolean(tag + '_flag'))


def _same(ctx, name, got, want):
    if isinstance(want, (str, type(None), list)) or isinstance(got, (str, type(None), list)):
        ctx.check(name, got is want or got == want)
    elif isinstance(want, bool) or isinstance(got, bool):
        ctx.check(name, isinstance(got, bool) and got == want)
    else:
        ctx.eq(name, got, want)


def h_assign(ctx, decl, cand, allow_none):
    opts = OptionsDictionary()
    valid = _declare(ctx, opts, 'a', decl, allow_none, None)
    # an initial accepted value, so that "rejected leaves the previous value" is observable
    v0 = _candidate(ctx, 'num' if decl not in ('types_str',) else 'str', 'init')
    first_ok = valid(v0)
    e0 = ctx.raises(Exception, opts.__setitem__, 'a', v0)
    ctx.check('first_assignment_iff_valid', (e0 is None) == first_ok)
    v = _candidate(ctx, cand)
    ok = valid(v)
    e = ctx.raises(Exception, opts.__setitem__, 'a', v)
    ctx.check('assignment_succeeds_iff_valid', (e is None) == ok, err=repr(e))
    if e is None:
        _same(ctx, 'value_after_accept', opts['a'], v)
    elif e0 is None:
        _same(ctx, 'rejected_leaves_previous', opts['a'], v0)
    else:
        e2 = ctx.raises(Exception, opts.__getitem__, 'a')
        ctx.check('never_set_still_unset', e2 is not None)
    ctx.observe('accepted', e is None)


def h_readonly_alias(ctx, read_only):
    opts = OptionsDictionary(read_only=False)
    lo = ctx.real('lo', -100, 100)
    d = ctx.real('d', -100, 100)
    ctx.assume(d >= lo)
    opts.declare('new', default=d, lower=lo)
    opts.declare('old', deprecation=('old is deprecated', 'new'))
    opts._read_only = read_only
    v = ctx.real('v', -100, 100)
    import warnings
    with warnings.catch_warnings():
        warnings.simplefilter('ignore')
        e = ctx.raises(Exception, opts.__setitem__, 'old', v)
        ok = (not read_only) and not bool(v < lo)
        ctx.check('alias_assignment_iff_valid_and_writable', (e is None) == ok)
        ctx.eq('alias_reads_target', opts['old'], opts['new'])
        ctx.eq('target_value', opts['new'], v if e is None else d)
    ctx.observe('ok', e is None)


def h_temporary_alias(ctx, exit_kind):
    """temporary() addressed through a deprecated alias: the aliased option is changed inside and restored afterwards"""
    import warnings
    opts = OptionsDictionary()
    lo = ctx.real('lo', -100, 100)
    d = ctx.real('d', -100, 100)
    t = ctx.real('t', -100, 100)
    ctx.assume((d >= lo) & (t >= lo))
    opts.declare('new', default=d, lower=lo)
    opts.declare('old', deprecation=('old is deprecated', 'new'))
    raised = None
    seen = {}
    with warnings.catch_warnings():
        warnings.simplefilter('ignore')
        try:
            with opts.temporary(old=t):
                seen['new'], seen['old'] = opts['new'], opts['old']
                if exit_kind == 'body_raises':
                    raise _Boom()
        except _Boom as err:
            raised = err
        ctx.check('exception_iff_expected', (raised is not None) == (exit_kind == 'body_raises'))
        ctx.eq('inside_new', seen['new'], t)
        ctx.eq('inside_old', seen['old'], t)
        ctx.eq('new_restored', opts['new'], d)
        ctx.eq('old_reads_restored', opts['old'], d)
    ctx.check('context_cache_empty', _cache_empty(opts))
    ctx.observe('new', opts['new'])


def _cache_empty(opts):
    return all(len(v) == 0 for v in opts._context_cache.values())


def h_temporary(ctx, exit_kind, nested):
    opts = OptionsDictionary()
    a0 = ctx.real('a0', -100, 100)
    b0 = ctx.real('b0', -100, 100)
    alo, aup = ctx.real('alo', -100, 100), ctx.real('aup', -100, 100)
    blo = ctx.real('blo', -100, 100)
    ctx.assume((alo <= a0) & (a0 <= aup) & (blo <= b0))
    opts.declare('a', default=a0, lower=alo, upper=aup)
    opts.declare('b', default=b0, lower=blo)
    ta, tb = ctx.real('ta', -100, 100), ctx.real('tb', -100, 100)
    ta2 = ctx.real('ta2', -100, 100)
    ta_ok = bool((alo <= ta) & (ta <= aup))
    tb_ok = bool(blo <= tb)
    if exit_kind in ('normal', 'body_raises'):
        ctx.assume(ta_ok and tb_ok)
        kwargs = dict(a=ta, b=tb)
    elif exit_kind == 'entry_second_invalid':
        ctx.assume(ta_ok and not tb_ok)
        kwargs = dict(a=ta, b=tb)
    elif exit_kind == 'entry_first_invalid':
        ctx.assume((not ta_ok) and tb_ok)
        kwargs = dict(a=ta, b=tb)
    else:
        ctx.assume(ta_ok)
        kwargs = dict(a=ta, zz=tb)
    inside = {}
    raised = None
    try:
        if nested:
            ctx.assume((alo <= ta2) & (ta2 <= aup))
            with opts.temporary(a=ta2):
                inside['outer_a'] = opts['a']
                try:
                    with opts.temporary(**kwargs):
                        inside['a'], inside['b'] = opts['a'], opts['b']
                        if exit_kind == 'body_raises':
                            raise _Boom()
                except (_Boom, ValueError, KeyError) as err:
                    raised = err
                # the inner block is over: the outer temporary value must be back
                inside['a_after_inner'] = opts['a']
                inside['cache_a_depth'] = len(opts._context_cache.get('a', []))
        else:
            with opts.temporary(**kwargs):
                inside['a'], inside['b'] = opts['a'], opts['b']
                if exit_kind == 'body_raises':
                    raise _Boom()
    except (_Boom, ValueError, KeyError) as err:
        raised = err
    ctx.check('exception_iff_expected', (raised is not None) == (exit_kind != 'normal'), raised=repr(raised))
    if exit_kind in ('normal', 'body_raises'):
        ctx.eq('inside_a', inside['a'], ta)
        ctx.eq('inside_b', inside['b'], tb)
    if nested:
        ctx.eq('outer_value_seen', inside['outer_a'], ta2)
        ctx.eq('outer_value_restored_after_inner', inside['a_after_inner'], ta2)
        ctx.check('one_cached_value_while_outer_active', inside['cache_a_depth'] == 1)
    ctx.eq('a_restored', opts['a'], a0)
    ctx.eq('b_restored', opts['b'], b0)
    ctx.check('context_cache_empty', _cache_empty(opts))
    # the dictionary is still usable: a later temporary block behaves normally
    with opts.temporary(a=a0):
        pass
    ctx.eq('a_after_reuse', opts['a'], a0)
    ctx.check('context_cache_empty_after_reuse', _cache_empty(opts))
    ctx.observe('a', opts['a'])


def h_update_set(ctx):
    """set()/update() assign each option like __setitem__; a failing item leaves that option unchanged"""
    opts = OptionsDictionary()
    a0, b0 = ctx.real('a0', -100, 100), ctx.real('b0', -100, 100)
    up = ctx.real('up', -100, 100)
    ctx.assume((a0 <= up) & (b0 <= up))
    opts.declare('a', default=a0, upper=up)
    opts.declare('b', default=b0, upper=up)
    va, vb = ctx.real('va', -100, 100), ctx.real('vb', -100, 100)
    e = ctx.raises(Exception, opts.set, a=va, b=vb)
    a_ok, b_ok = bool(va <= up), bool(vb <= up)
    ctx.check('set_fails_iff_some_invalid', (e is None) == (a_ok and b_ok))
    ctx.eq('a_after_set', opts['a'], va if a_ok else a0)
    ctx.eq('b_after_set', opts['b'], vb if (a_ok and b_ok) else b0)
    e = ctx.raises(Exception, opts.update, {'b': va})
    ctx.check('update_fails_iff_invalid', (e is None) == a_ok)
    ctx.observe('b', opts['b'])
