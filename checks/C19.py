"""C19 Loading a recorded case restores the recorded state (Problem.load_case; serialisation outside)."""
import numpy as np
import openmdao.api as om

from progfam.library import LIBRARY
from checks.C24 import PROGS as C24_PROGS

LEVEL = 'model_checking'
EXPLANATION = ('A program is run at a symbolic state A and "recorded" with the real list_inputs/list_outputs (dict form of a case, the '
               'form Problem.load_case documents) and as a Case-shaped object exposing .inputs/.outputs keyed the way the SQLite reader '
               'keys them (absolute input names, promoted output names); a second instance of the program in a different symbolic state B '
               'loads the case: get_val of every recorded input and output must be the recorded term (model units), and run_model must '
               'reproduce every recorded output.')
BOUNDS = dict(programs='basic_scaled, idx_flat, auto_units (auto-IVC + promoted inputs + units), promote_chain, temp_offset, chain3', forms='dict (list_inputs/list_outputs) and object (inputs/outputs mappings)')
STUBS = ['the Case object is a plain holder of two dicts: pickling/zlib/SQLite decoding of the real Case is outside']
ASSUMPTIONS = ['reals; unit factors float64 constants (1e-9 margin)']
OUTSIDE = ['sqlite_recorder / sqlite_reader / Case blob decoding (C code)', 'systems that override load_case', 'distributed variables']


def harnesses(tier, seed):
    q = tier == 'quick'
    progs = ['basic_scaled', 'idx_flat', 'auto_units', 'promote_chain', 'temp_offset', 'chain3'] if q else ['basic_scaled', 'idx_flat', 'idx_nonflat', 'auto_units', 'promote_chain', 'temp_offset', 'chain3', 'matfree', 'branches', 'units_ref0']
    return [dict(fn='h_load', params=dict(prog=p, form=f)) for p in progs for f in ('dict', 'object')]


def _make(prog):
    return C24_PROGS[prog]() if prog in C24_PROGS else LIBRARY[prog]()


class _Case:
    def __init__(self, inputs, outputs):
        self.inputs, self.outputs = inputs, outputs


def h_load(ctx, prog, form):
    if ctx.sym:
        from symx import stubs
        import openmdao.utils.general_utils as GU
        import openmdao.core.system as SY
        stubs.install_float(GU, SY)
    # ---- record at state A
    PA = _make(prog)
    PA.desvars, PA.responses = [], []
    pa = PA.build(ctx)
    vals_a = PA.set_indeps(ctx, pa, tag='A')
    pa.run_model()
    ins = pa.model.list_inputs(out_stream=None, prom_name=True, return_format='dict', units=True)
    outs = pa.model.list_outputs(out_stream=None, prom_name=True, return_format='dict', units=True)
    rec_in = {k: np.array(m['val'], dtype=object if ctx.sym else float).copy() for k, m in ins.items()}
    rec_out = {k: np.array(m['val'], dtype=object if ctx.sym else float).copy() for k, m in outs.items()}
    if form == 'dict':
        case = dict(inputs=ins, outputs=outs)
    else:
        case = _Case({k: m['val'] for k, m in ins.items()}, {m['prom_name']: m['val'] for m in outs.values()})
    # ---- a second instance in a different state B
    PB = _make(prog)
    PB.desvars, PB.responses = [], []
    pb = PB.build(ctx)
    PB.set_indeps(ctx, pb, tag='B')
    pb.run_model()
    import warnings
    with warnings.catch_warnings(record=True) as wlist:
        warnings.simplefilter('always')
        pb.load_case(case)
    notfound = [str(w.message) for w in wlist if 'not found in the model' in str(w.message)]
    ctx.check('every_recorded_variable_is_recognised', not notfound, warnings=notfound[:3])
    tol = 1e-9 if (PA.uses_units() or any('ref' in f for f in PA.features)) else 0
    for k, v in rec_in.items():
        ctx.eq('input_after_load:' + k, pb.get_val(k, from_src=False), v, tol)
    for k, v in rec_out.items():
        ctx.eq('output_after_load:' + k, pb.get_val(k), v, tol)
    pb.run_model()
    for k, v in rec_out.items():
        ctx.eq('output_after_rerun:' + k, pb.get_val(k), v, tol)
    for k, v in rec_in.items():
        ctx.eq('input_after_rerun:' + k, pb.get_val(k, from_src=False), v, tol)
    ctx.observe('outs', [pb.get_val(o) for o in PB.ofs])
