"""C10 Bounds enforcement keeps Newton updates inside bounds and along the step."""
import numpy as np
import openmdao.api as om
from openmdao.solvers.linesearch import backtracking as BT

from symx.values import And, Or

LEVEL = 'model_checking'
EXPLANATION = ('Bounded symbolic execution of the real line-search code (kernels and the real '
               'LinesearchSolver/_setup_solvers on a real System with scaled vectors); start point, Newton step, '
               'alpha, bounds and ref/ref0 are symbolic reals; z3 decides every branch and every obligation.')
BOUNDS = dict(vector_length='quick: kernels n<=2 (scalar/wall 3), system n<=2; thorough: kernels n<=3 (scalar/wall 4), system n<=2 (+ two n=3 cases)', bound_patterns='both | mixed per entry (INF_BOUND sentinel inside arrays) | lower_only | upper_only (the other bound None)',
              scaling='ref,ref0 symbolic per element, both orders (ref>ref0, ref<ref0)',
              armijo_backtracks='maxiter <=2 (quick) / 3 (thorough), residual norms symbolic')
STUBS = ['LinesearchSolver._iter_get_norm -> fresh symbolic non-negative real per call (arbitrary residual history)']
ASSUMPTIONS = ['start point within [lower, upper] (the property\'s precondition)', 'alpha > 0', 'ref != ref0',
               'numbers are mathematical reals (no round-off)']
OUTSIDE = ['IEEE round-off', 'Newton linear solve itself (the step is an arbitrary symbolic vector)',
           'vector length above the bound', 'subsolves during Armijo backtracking (_do_subsolve)']

KERNELS = dict(vector=BT._enforce_bounds_vector, scalar=BT._enforce_bounds_scalar, wall=BT._enforce_bounds_wall)


def harnesses(tier, seed):
    jobs = []
    K = lambda method, n, **kw: jobs.append(dict(fn='h_kernel', params=dict(method=method, n=n), **kw))
    S = lambda ls, method, n, pattern, maxiter=2, **kw: jobs.append(
        dict(fn='h_system', params=dict(ls=ls, method=method, n=n, pattern=pattern, maxiter=maxiter), **kw))
    if tier == 'quick':
        for method in ('vector', 'scalar', 'wall'):
            K(method, 1)
            K(method, 2)
            for ls in ('BoundsEnforceLS', 'ArmijoGoldsteinLS'):
                S(ls, method, 1, 'both')
        K('scalar', 3)
        K('wall', 3)
        S('BoundsEnforceLS', 'scalar', 2, 'both')
        S('BoundsEnforceLS', 'wall', 2, 'mixed')
        S('BoundsEnforceLS', 'scalar', 2, 'mixed')
        S('BoundsEnforceLS', 'vector', 2, 'lower_only')
        S('BoundsEnforceLS', 'scalar', 2, 'upper_only')
        S('BoundsEnforceLS', 'wall', 1, 'lower_only')
        S('ArmijoGoldsteinLS', 'scalar', 1, 'upper_only')
    else:
        big = dict(wall_s=2400, max_paths=200000)
        for method in ('vector', 'scalar', 'wall'):
            for n in (1, 2, 3):
                K(method, n, **big)
            for ls in ('BoundsEnforceLS', 'ArmijoGoldsteinLS'):
                S(ls, method, 1, 'both', 3, **big)
                S(ls, method, 2, 'both', 2, **big)
                S(ls, method, 2, 'mixed', 2, **big)
                S(ls, method, 2, 'lower_only', 2, **big)
                S(ls, method, 2, 'upper_only', 2, **big)
        K('scalar', 4, **big)
        K('wall', 4, **big)
        S('BoundsEnforceLS', 'scalar', 3, 'both', **big)
        S('BoundsEnforceLS', 'wall', 3, 'mixed', **big)
    return jobs


class _V:
    """minimal vector with the three operations the kernels use (the system-level harness uses the
    real DefaultVector)"""
    def __init__(self, a):
        self.a = a

    def asarray(self):
        return self.a

    def add_scal_vec(self, val, vec):
        self.a += val * vec.asarray()

    def __iadd__(self, o):
        self.a += o
        return self

    def __imul__(self, o):
        self.a *= o
        return self


def _along(u0, full, u):
    """u lies between u0 and full (inclusive), in either order"""
    return Or(And(u0 <= u, u <= full), And(full <= u, u <= u0))


def h_kernel(ctx, method, n):
    """the three enforcement kernels on arbitrary data; per-entry bound presence is symbolic too
    (absent = -inf/+inf entries, as LinesearchSolver._setup_solvers fills them)"""
    u0 = ctx.reals('u', n)
    d = ctx.reals('d', n)
    lo = ctx.reals('lo', n)
    up = ctx.reals('up', n)
    alpha = ctx.real('alpha')
    ctx.assume(alpha > 0)
    has_lo = [ctx.boolean(f'has_lo_{i}') for i in range(n)]
    has_up = [ctx.boolean(f'has_up_{i}') for i in range(n)]
    lower = np.empty(n, dtype=object)
    upper = np.empty(n, dtype=object)
    for i in range(n):
        lower[i] = lo[i] if has_lo[i] else -np.inf
        upper[i] = up[i] if has_up[i] else np.inf
        ctx.assume(u0[i] >= lower[i])
        ctx.assume(u0[i] <= upper[i])
    if not ctx.sym:
        lower = lower.astype(float)
        upper = upper.astype(float)
    u = _V(u0 + alpha * d)
    du = _V(d.copy())
    KERNELS[method](u, du, alpha, lower, upper)
    for i in range(n):
        ctx.check(f'lower[{i}]', u.a[i] >= lower[i])
        ctx.check(f'upper[{i}]', u.a[i] <= upper[i])
        ctx.check(f'along[{i}]', _along(u0[i], u0[i] + alpha * d[i], u.a[i]))
        # the remaining step must still point the same way and not overshoot: u - alpha*du is where
        # backtracking to alpha=0 would end; it must stay on the segment as well
    ctx.observe('u', u.a)
    ctx.observe('du', du.a)


class _Imp(om.ImplicitComponent):
    """R(y) = y - target, dR/dy = I.  Bounds/scaling given per element."""

    def __init__(self, n, lower, upper, ref, ref0, target, xp):
        super().__init__()
        self._a = (n, lower, upper, ref, ref0, target, xp)

    def setup(self):
        n, lower, upper, ref, ref0, target, xp = self._a
        self.add_output('y', val=xp.ones(n), lower=lower, upper=upper, ref=ref, ref0=ref0)
        self.add_output('z', val=xp.ones(1))         # an unbounded neighbour in the same vector
        self.declare_partials('y', 'y', rows=np.arange(n), cols=np.arange(n), val=1.0)
        self.declare_partials('z', 'z', val=1.0)

    def apply_nonlinear(self, inputs, outputs, residuals):
        residuals['y'] = outputs['y'] - self._a[5]
        residuals['z'] = outputs['z']


def h_system(ctx, ls, method, n, pattern, maxiter):
    """real LinesearchSolver on a real System: _setup_solvers scales the bounds with ref/ref0, the
    line search runs on scaled vectors, the claim is checked in physical units afterwards."""
    xp = ctx.np
    u0 = ctx.reals('u', n)
    d = ctx.reals('d', n)
    lo = ctx.reals('lo', n)
    up = ctx.reals('up', n)
    ref = ctx.reals('ref', n)
    ref0 = ctx.reals('ref0', n)
    for i in range(n):
        ctx.assume(ref[i] != ref0[i])
        ctx.assume(lo[i] <= u0[i])
        ctx.assume(u0[i] <= up[i])
    if pattern == 'both':
        lower, upper = lo, up
        has_lo = has_up = [True] * n
    elif pattern == 'lower_only':
        # the whole variable has no upper bound (upper=None): one-sided bounds
        lower, upper = lo, None
        has_lo, has_up = [True] * n, [False] * n
    elif pattern == 'upper_only':
        lower, upper = None, up
        has_lo, has_up = [False] * n, [True] * n
    else:
        # entry 0 only lower, entry 1 only upper, others both: absent bounds are the -/+INF_BOUND sentinel
        # (1e30) that add_output documents for "no bound" inside an array
        big = 10 ** 30
        has_lo = [i != 1 for i in range(n)]
        has_up = [i != 0 for i in range(n)]
        lower = ctx.array([lo[i] if has_lo[i] else ctx.const(-big) for i in range(n)])
        upper = ctx.array([up[i] if has_up[i] else ctx.const(big) for i in range(n)])
        for i in range(n):
            ctx.assume(u0[i] >= -1000)
            ctx.assume(u0[i] <= 1000)
            ctx.assume(d[i] >= -1000)
            ctx.assume(d[i] <= 1000)
    alpha = ctx.real('alpha') if ls == 'ArmijoGoldsteinLS' else 1
    if ls == 'ArmijoGoldsteinLS':
        ctx.assume(alpha > 0)
        ctx.assume(alpha <= 4)
    target = u0 + d
    p = om.Problem()
    comp = p.model.add_subsystem('c', _Imp(n, lower, upper, ref, ref0, target, xp))
    newton = comp.nonlinear_solver = om.NewtonSolver(solve_subsystems=False, maxiter=1, iprint=-1)
    comp.linear_solver = om.DirectSolver()
    if ls == 'BoundsEnforceLS':
        lsolver = newton.linesearch = om.BoundsEnforceLS(bound_enforcement=method, iprint=-1)
    else:
        lsolver = newton.linesearch = om.ArmijoGoldsteinLS(bound_enforcement=method, iprint=-1, maxiter=maxiter)
        if ctx.sym:
            lsolver.options._dict['alpha']['val'] = alpha
        else:
            lsolver.options['alpha'] = alpha
    p.setup()
    p.final_setup()
    comp._outputs.set_var('y', u0) if hasattr(comp._outputs, 'set_var') else None
    comp._outputs['y'] = u0
    comp._doutputs['y'] = d
    norms = []

    def fake_norm():
        k = len(norms)
        v = ctx.real(f'phi_{k}')
        ctx.assume(v >= 0)
        norms.append(v)
        return v
    lsolver._iter_get_norm = fake_norm
    snapshots = []
    if ls == 'ArmijoGoldsteinLS':
        # observe the physical state after every backtrack: wrap _single_iteration
        orig = lsolver._single_iteration

        def single():
            orig()
            with comp._unscaled_context(outputs=[comp._outputs]):
                snapshots.append(comp._outputs['y'].copy())
        lsolver._single_iteration = single
    with comp._scaled_context_all():
        lsolver._solve()
    y = comp._outputs['y']
    snapshots.append(y.copy())
    for k, snap in enumerate(snapshots):
        for i in range(n):
            if has_lo[i]:
                ctx.check(f'lower[{i}]@{k}', snap[i] >= lo[i])
            if has_up[i]:
                ctx.check(f'upper[{i}]@{k}', snap[i] <= up[i])
            ctx.check(f'along[{i}]@{k}', _along(u0[i], u0[i] + alpha * d[i], snap[i]))
    ctx.observe('y', y)
    ctx.observe('nsnap', len(snapshots))
