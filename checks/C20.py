"""C20 Driver scaling is an exact, invertible affine map applied consistently."""
import numpy as np
import openmdao.api as om

LEVEL = 'model_checking'
EXPLANATION = ('Real Problem + Driver + Autoscaler executed symbolically: model values, scaler/adder or ref/ref0 '
               '(per element), bounds and the Jacobian data are symbolic reals; obligations are the affine-map laws '
               '(ref0->0, ref->1, unscale(scale(x))==x, scaled bound == image of the bound, infinite bounds stay the '
               'sentinel, J_scaled == J*s_resp/s_dv, multipliers in model units independent of the scaling).')
BOUNDS = dict(design_var_size='<= 2', response_size='<= 2', scaling='none | scaler/adder | ref/ref0 (per-element arrays, symbolic)',
              units='none | m->cm (factor) | degC->degF (factor+offset), concrete library factors with 1e-9 margin',
              bounds='finite symbolic, one-sided, +-INF_BOUND sentinel')
STUBS = ['module-global float in openmdao.utils.general_utils / openmdao.core.system -> pass-through for proxies']
ASSUMPTIONS = ['|scaler| and |ref-ref0| in [1/100, 100], |adder| <= 100 (boxes keep the 1e-9 round-off margin meaningful)', 'reals; unit factors are the exact rational values of the float64 constants']
OUTSIDE = ['custom Autoscaler subclasses other than the default and BoundsAutoscaler setup', 'distributed/discrete design variables',
           'optimizers themselves (C21)']

from openmdao.utils.units import unit_conversion

UNITS = {'none': (None, None, 1, 0), 'len': ('m', 'cm') + unit_conversion('m', 'cm'),
         'temp': ('degC', 'degF') + unit_conversion('degC', 'degF')}
# (model units, driver units, factor f, offset o)  with driver = (model + o) * f; f and o are the float64
# constants the library itself returns (the unit algebra is C06's subject), so the oracle is exact up to the
# association of constant-only products, covered by the 1e-9 margin with all scalers boxed


def harnesses(tier, seed):
    jobs = _harnesses(tier, seed)
    if tier == 'quick':
        # fix the sign class of the symbolic scalers per job (alternating), so that each job explores one sign pattern
        for k, j in enumerate(jobs):
            if j['params'].get('scaling', 'scaler_adder') != 'none':
                j['params']['sign'] = 'neg' if (k % 3 == 1 or j['fn'] == 'h_bounds_mixed' and k % 2) else 'pos'
    return jobs


def _harnesses(tier, seed):
    jobs = []
    q = tier == 'quick'
    for scaling in ('none', 'scaler_adder', 'ref_ref0', 'ref_only', 'scaler_only'):
        for units in ('none', 'len', 'temp'):
            if q and units == 'temp' and scaling in ('ref_only', 'scaler_only'):
                continue
            # scaler/adder arrays fork on every element (==1, !=0, sign): n=2 only where it is cheap in quick
            n = 1 if (q and scaling == 'scaler_adder' and units != 'none') else 2
            jobs.append(dict(fn='h_values', params=dict(n=n, scaling=scaling, units=units), wall_s=400 if q else 1500))
    for scaling in ('scaler_adder', 'ref_ref0'):
        for mode in ('fwd', 'rev'):
            for fmt in ('array', 'dict', 'flat_dict'):
                if q and (mode == 'rev' and fmt != 'array' or scaling == 'scaler_adder' and fmt == 'flat_dict'):
                    continue
                jobs.append(dict(fn='h_jac', params=dict(scaling=scaling, mode=mode, fmt=fmt, units='len' if fmt == 'dict' else 'none'),
                                 wall_s=400 if q else 1500))
    jobs.append(dict(fn='h_mult', params=dict()))
    jobs.append(dict(fn='h_mult', params=dict(via='options')))
    for scaling in ('scaler_adder', 'ref_ref0') if q else ('scaler_adder', 'ref_ref0', 'ref_only', 'scaler_only'):
        for via in ('add', 'options'):
            jobs.append(dict(fn='h_bounds_mixed', params=dict(scaling=scaling, via=via), wall_s=400 if q else 1500))
    return jobs


def _install(ctx):
    if ctx.sym:
        from symx import stubs
        import openmdao.utils.general_utils as GU
        import openmdao.core.system as SY
        stubs.install_float(GU, SY)


class _Lin(om.ExplicitComponent):
    """y = A x (A symbolic), f = sum(c * x)"""

    def __init__(self, A, c, xp, xunits=None, yunits=None):
        super().__init__()
        self._a = (A, c, xp, xunits, yunits)

    def setup(self):
        A, c, xp, xu, yu = self._a
        m, n = A.shape
        self.add_input('x', val=xp.ones(n), units=xu)
        self.add_output('y', val=xp.ones(m), units=yu)
        self.add_output('f', val=xp.ones(1))
        self.declare_partials('y', 'x')
        self.declare_partials('f', 'x')

    def compute(self, i, o):
        A, c = self._a[:2]
        x = i['x']
        o['y'] = A.dot(x)
        o['f'] = (c * x).sum()

    def compute_partials(self, i, J):
        A, c = self._a[:2]
        J['y', 'x'] = A
        J['f', 'x'] = c.reshape(1, -1)


SIGN = [None]      # 'pos' | 'neg' | None: sign class of every symbolic scaling factor in the current harness run


def _scal(ctx, kind, n, tag):
    """kwargs and the map x -> (x + a) * s as lists (a, s)"""
    one = [ctx.const(1)] * n
    zero = [ctx.const(0)] * n
    if kind == 'none':
        return {}, zero, one
    B = 100
    def nz(v):
        # the sign of a scaler decides on which side the image of a bound lies (one path per sign pattern): the quick tier fixes
        # the sign class per harness, the thorough tier leaves it open
        if SIGN[0] == 'pos':
            ctx.assume(v >= ctx.const('1/100'))
        elif SIGN[0] == 'neg':
            ctx.assume(v <= ctx.const('-1/100'))
        else:
            ctx.assume((v >= ctx.const('1/100')) | (v <= ctx.const('-1/100')))
    if kind == 'scaler_adder':
        s, a = ctx.reals('s' + tag, n, -B, B), ctx.reals('a' + tag, n, -B, B)
        for i in range(n):
            nz(s[i])
        return dict(scaler=s, adder=a), list(a), list(s)
    if kind == 'scaler_only':
        s = ctx.reals('s' + tag, n, -B, B)
        for i in range(n):
            nz(s[i])
        return dict(scaler=s), zero, list(s)
    if kind == 'ref_only':
        r = ctx.reals('ref' + tag, n, -B, B)
        for i in range(n):
            nz(r[i])
        return dict(ref=r), zero, [1 / r[i] for i in range(n)]
    r, r0 = ctx.reals('ref' + tag, n, -B, B), ctx.reals('ref0' + tag, n, -B, B)
    for i in range(n):
        nz(r[i] - r0[i])
    return dict(ref=r, ref0=r0), [-r0[i] for i in range(n)], [1 / (r[i] - r0[i]) for i in range(n)]


def h_values(ctx, n, scaling, units, sign=None):
    SIGN[0] = sign
    _install(ctx)
    xp = ctx.np
    mu, du, f, o = UNITS[units]
    f, o = ctx.const(f), ctx.const(o)
    tol = 0 if units == 'none' else 1e-9
    x = ctx.reals('x', n, -100, 100)
    lo = ctx.reals('lo', n, -100, 100)
    A = ctx.array([[1, 2], [3, 5]]) if n == 2 else ctx.array([[2]])
    c = ctx.array([1] * n)
    dkw, da, ds = _scal(ctx, scaling, n, 'd')
    ckw, ca, cs = _scal(ctx, scaling, n, 'c')
    okw, oa_, os_ = _scal(ctx, 'scaler_adder' if scaling != 'none' else 'none', 1, 'o')
    p = om.Problem()
    p.model.add_subsystem('c', _Lin(A, c, xp, mu, mu), promotes=['*'])
    ukw = dict(units=du) if du else {}
    p.model.add_design_var('x', lower=lo, **dkw, **ukw)           # upper absent -> +INF sentinel
    p.model.add_constraint('y', upper=lo, **ckw, **ukw)           # lower absent -> -INF sentinel
    p.model.add_objective('f', **okw)
    p.setup()
    p.set_val('x', x)
    p.final_setup()
    p.run_model()
    drv = p.driver
    y = A.dot(x)
    conv = lambda v: (v + o) * f
    dv = drv.get_design_var_values()['x']
    cv = drv.get_constraint_values()['y']
    ov = drv.get_objective_values()['f']
    for i in range(n):
        ctx.eq(f'dv_scaled[{i}]', dv[i], (conv(x[i]) + da[i]) * ds[i], tol)
        ctx.eq(f'con_scaled[{i}]', cv[i], (conv(y[i]) + ca[i]) * cs[i], tol)
    ctx.eq('obj_scaled', ov[0], ((c * x).sum() + oa_[0]) * os_[0], tol)
    ctx.eq('dv_unscaled', drv.get_design_var_values(driver_scaling=False)['x'], ctx.array([conv(v) for v in x]), tol)
    # bounds: image of the bound; absent bounds stay the sentinel.  A negative scaler maps a lower
    # bound onto the value that bounds the scaled variable from above, the image is still (b+a)*s.
    lower, upper, _ = drv._autoscaler.get_bounds_scaling('design_var')
    clower, cupper, _ = drv._autoscaler.get_bounds_scaling('constraint')
    from openmdao.core.constants import INF_BOUND
    for i in range(n):
        # the feasible interval [lo, +inf) (design var) / (-inf, lo] (constraint) is mapped by x -> (x + a) * s: for s > 0 the image
        # of the bound stays on its side, for s < 0 the ordering is reversed and the image bounds the scaled quantity from the other side
        img_d, img_c = (lo[i] + da[i]) * ds[i], (lo[i] + ca[i]) * cs[i]
        if bool(ds[i] > 0):
            ctx.eq(f'dv_lower[{i}]', lower['x'][i], img_d, tol)
            ctx.eq(f'dv_upper_inf[{i}]', upper['x'][i], INF_BOUND)
        else:
            ctx.eq(f'dv_upper_neg_scaler[{i}]', upper['x'][i], img_d, tol)
            ctx.eq(f'dv_lower_inf_neg_scaler[{i}]', lower['x'][i], -INF_BOUND)
        if bool(cs[i] > 0):
            ctx.eq(f'con_upper[{i}]', cupper['y'][i], img_c, tol)
            ctx.eq(f'con_lower_inf[{i}]', clower['y'][i], -INF_BOUND)
        else:
            ctx.eq(f'con_lower_neg_scaler[{i}]', clower['y'][i], img_c, tol)
            ctx.eq(f'con_upper_inf_neg_scaler[{i}]', cupper['y'][i], INF_BOUND)
    # unscale(scale(x)) == x : push the scaled vector back through the driver into the model
    z = ctx.reals('z', n, -100, 100)          # arbitrary point in optimizer space
    vec = drv._vectors['design_var']
    vec.set_data(z.copy(), driver_scaling=True)
    drv._set_design_vars(driver_scaling=True)
    back = drv.get_design_var_values()['x']
    ctx.eq('scale_unscale_roundtrip', back, z, tol)
    xm = p.get_val('x')
    for i in range(n):
        # model value = inverse affine map of z, then inverse unit map
        ctx.eq(f'model_value[{i}]', conv(xm[i]), z[i] / ds[i] - da[i], tol)
    ctx.observe('dv', dv)
    ctx.observe('cv', cv)
    ctx.observe('back', back)


def h_jac(ctx, scaling, mode, fmt, units, sign=None):
    SIGN[0] = sign
    _install(ctx)
    xp = ctx.np
    n = m = 2
    mu, du, f, o = UNITS[units]
    f = ctx.const(f)
    tol = 0 if units == 'none' else 1e-9
    x = ctx.reals('x', n, -10, 10)
    A = ctx.reals('A', (m, n))
    c = ctx.reals('c', n)
    dkw, da, ds = _scal(ctx, scaling, n, 'd')
    ckw, ca, cs = _scal(ctx, scaling, m, 'c')
    okw, oa_, os_ = _scal(ctx, 'scaler_adder', 1, 'o')
    p = om.Problem()
    p.model.add_subsystem('c', _Lin(A, c, xp, mu, mu), promotes=['*'])
    ukw = dict(units=du) if du else {}
    p.model.add_design_var('x', **dkw, **ukw)
    p.model.add_constraint('y', upper=0, **ckw, **ukw)
    p.model.add_objective('f', **okw)
    p.setup(mode=mode)
    p.set_val('x', x)
    p.final_setup()
    p.run_model()
    J = p.driver._compute_totals(of=['f', 'y'], wrt=['x'], return_format=fmt, driver_scaling=True)
    if fmt == 'array':
        Jf, Jy = J[0:1, :], J[1:, :]
    elif fmt == 'dict':
        Jf, Jy = J['f']['x'], J['y']['x']
    else:
        Jf, Jy = J['f', 'x'], J['y', 'x']
    # d(driver y)/d(driver x): unit factors f_y / f_x cancel for equal unit pairs, but d f/d x_driver has 1/f
    for j in range(n):
        ctx.eq(f'Jf[{j}]', Jf[0, j], c[j] * os_[0] / ds[j] / f, tol)
        for i in range(m):
            ctx.eq(f'Jy[{i},{j}]', Jy[i, j], A[i, j] * cs[i] / ds[j], tol)
    ctx.observe('Jy', Jy)
    ctx.observe('Jf', Jf)


def h_bounds_mixed(ctx, scaling, via, sign=None):
    SIGN[0] = sign
    """per-element bound arrays that mix finite entries with the +-INF_BOUND sentinel: finite entries are mapped like
    values, infinite entries stay the sentinel; declared with add_* or re-declared with set_*_options"""
    _install(ctx)
    from openmdao.core.constants import INF_BOUND
    xp = ctx.np
    n = 2
    x = ctx.reals('x', n, -100, 100)
    lo0, up1 = ctx.real('lo0', -100, 100), ctx.real('up1', -100, 100)
    clo1, cup0 = ctx.real('clo1', -100, 100), ctx.real('cup0', -100, 100)
    A = ctx.array([[1, 2], [3, 5]])
    c = ctx.array([1] * n)
    dkw, da, ds = _scal(ctx, scaling, n, 'd')
    ckw, ca, cs = _scal(ctx, scaling, n, 'c')
    lower = ctx.array([lo0, ctx.const(-INF_BOUND)])
    upper = ctx.array([ctx.const(INF_BOUND), up1])
    clower = ctx.array([ctx.const(-INF_BOUND), clo1])
    cupper = ctx.array([cup0, ctx.const(INF_BOUND)])
    p = om.Problem()
    p.model.add_subsystem('c', _Lin(A, c, xp), promotes=['*'])
    if via == 'add':
        p.model.add_design_var('x', lower=lower, upper=upper, **dkw)
        p.model.add_constraint('y', lower=clower, upper=cupper, **ckw)
    else:
        p.model.add_design_var('x', lower=-5.0, scaler=3.0)
        p.model.add_constraint('y', upper=7.0, ref=2.0)
        p.model.set_design_var_options('x', lower=lower, upper=upper, **dkw)
        p.model.set_constraint_options('y', lower=clower, upper=cupper, **ckw)
    p.model.add_objective('f')
    p.setup()
    p.set_val('x', x)
    p.final_setup()
    p.run_model()
    drv = p.driver
    y = A.dot(x)
    dv = drv.get_design_var_values()['x']
    cv = drv.get_constraint_values()['y']
    for i in range(n):
        ctx.eq(f'dv_scaled[{i}]', dv[i], (x[i] + da[i]) * ds[i])
        ctx.eq(f'con_scaled[{i}]', cv[i], (y[i] + ca[i]) * cs[i])
    L, Uq, _ = drv._autoscaler.get_bounds_scaling('design_var')
    cL, cU, _ = drv._autoscaler.get_bounds_scaling('constraint')
    def side(nm, vecs, i, img, is_lower, s_):
        # finite bound: its image bounds the scaled quantity from the same side for a positive scaler, from the other side for a
        # negative one; the opposite side is unbounded (sentinel)
        Lv, Uv = vecs
        same = bool(s_ > 0)
        if is_lower == same:
            ctx.eq(f'{nm}[{i}]:finite_side', Lv[i], img)
            ctx.eq(f'{nm}[{i}]:other_side_inf', Uv[i], INF_BOUND)
        else:
            ctx.eq(f'{nm}[{i}]:finite_side', Uv[i], img)
            ctx.eq(f'{nm}[{i}]:other_side_inf', Lv[i], -INF_BOUND)
    side('dv', (L['x'], Uq['x']), 0, (lo0 + da[0]) * ds[0], True, ds[0])
    side('dv', (L['x'], Uq['x']), 1, (up1 + da[1]) * ds[1], False, ds[1])
    side('con', (cL['y'], cU['y']), 1, (clo1 + ca[1]) * cs[1], True, cs[1])
    side('con', (cL['y'], cU['y']), 0, (cup0 + ca[0]) * cs[0], False, cs[0])
    ctx.observe('dv', dv)
    ctx.observe('L', L['x'])


def h_mult(ctx, via='add', sign=None):
    SIGN[0] = sign
    """apply_mult_unscaling: multipliers in model units are invariant under the scaling.  KKT in model space
    for min f st y_i active, x_j on a bound:  df/dx_j + sum_i lam_i dy_i/dx_j + mu_j = 0.  Take the scaled
    multipliers that satisfy the *scaled* stationarity, unscale them with the real code, and require the model-space
    stationarity to hold."""
    _install(ctx)
    xp = ctx.np
    n = m = 2
    x = ctx.reals('x', n, -10, 10)
    A = ctx.reals('A', (m, n))
    c = ctx.reals('c', n)
    dkw, da, ds = _scal(ctx, 'scaler_adder', n, 'd')
    ckw, ca, cs = _scal(ctx, 'scaler_adder', m, 'c')
    okw, oa_, os_ = _scal(ctx, 'scaler_adder', 1, 'o')
    p = om.Problem()
    p.model.add_subsystem('c', _Lin(A, c, xp), promotes=['*'])
    if via == 'add':
        p.model.add_design_var('x', **dkw)
        p.model.add_constraint('y', upper=0, **ckw)
    else:
        # scaling re-declared after the fact; an adder-only re-declaration leaves the variable with no scaler at all
        p.model.add_design_var('x', scaler=3.0)
        p.model.add_constraint('y', upper=0, ref=2.0)
        p.model.set_design_var_options('x', adder=ctx.array(da))
        p.model.set_constraint_options('y', adder=ctx.array(ca))
        ds = [ctx.const(1)] * n
        cs = [ctx.const(1)] * m
    p.model.add_objective('f', **okw)
    p.setup()
    p.set_val('x', x)
    p.final_setup()
    p.run_model()
    lam_s = ctx.reals('lam', m)          # scaled multipliers of the constraints
    # scaled stationarity defines the scaled bound multipliers mu_s
    Js = p.driver._compute_totals(of=['f', 'y'], wrt=['x'], return_format='array', driver_scaling=True)
    mu_s = [-(Js[0, j] + sum(lam_s[i] * Js[1 + i, j] for i in range(m))) for j in range(n)]
    dvm = {'x': ctx.array(mu_s)}
    cm = {'y': lam_s.copy()}
    p.driver._autoscaler.apply_mult_unscaling(dvm, cm)
    for j in range(n):
        r = c[j] + sum(cm['y'][i] * A[i, j] for i in range(m)) + dvm['x'][j]
        ctx.eq(f'model_space_stationarity[{j}]', r, 0)
    for i in range(m):
        ctx.eq(f'lam_unscaled[{i}]', cm['y'][i], lam_s[i] * cs[i] / os_[0])
    ctx.observe('lam', cm['y'])
