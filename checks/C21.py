"""C21 Optimizer success implies a feasible reported design (transcription to SciPy; SciPy's optimizers trusted)."""
import itertools

import numpy as np
import openmdao.api as om
import openmdao.drivers.scipy_optimizer as SO
from openmdao.core.constants import INF_BOUND

LEVEL = 'model_checking'
EXPLANATION = ('ScipyOptimizeDriver.run executed on a real Problem with scipy.optimize.minimize replaced by a capturing stub.  Bounds '
               '(lower/upper per element, present or absent, or equals), scaler/adder and the constraint values are symbolic.  '
               'Obligations: (i) the constraint set handed to SciPy - dict style (fun >= 0 / == 0, evaluated through the real _confunc) or '
               'NonlinearConstraint objects (lb <= fun <= ub through the real _con_val_func) - is satisfied EXACTLY when every element '
               'satisfies its declared lower/upper/equals in model units, for every constraint value; (ii) the variable bounds handed to '
               'SciPy are the images of the declared design-variable bounds; (iii) after the stub "returns" a design with success=True '
               '(evaluating the objective there, as SciPy does) the model holds exactly that design in model units and the driver '
               'reports success.  With SciPy\'s contract (success => its constraints hold within tolerance) this gives the property.')
BOUNDS = dict(constraint='1 array constraint with 2 elements (thorough 3), every mix of two-sided / lower-only / upper-only elements, or equals', design_vars='2 elements, bounds two-sided / one-sided',
              optimizers='SLSQP, COBYLA (dict style), trust-constr (new style)', scaling='none | scaler/adder (symbolic, positive or negative scaler)')
STUBS = ['scipy.optimize.minimize -> capturing stub returning a symbolic design with success=True (SciPy optimizers are trusted, not executed)',
         'module-global float pass-through in general_utils/system']
ASSUMPTIONS = ['lower <= upper', 'scaler != 0', 'SciPy evaluates the objective at the point it returns']
OUTSIDE = ['SciPy\'s optimisation algorithms and their tolerance handling', 'pyOptSparseDriver', 'optimum of convex problems', 'bounds of LinearConstraint objects (their matrix is checked)']


def harnesses(tier, seed):
    q = tier == 'quick'
    n = 2
    kinds = list(itertools.product(('both', 'lower', 'upper'), repeat=n)) + [('equals',) * n]
    jobs = []
    for opt in ('SLSQP', 'trust-constr') if q else ('SLSQP', 'COBYLA', 'trust-constr'):
        for k in kinds:
            for scaling in ('none', 'scaled'):
                if q and scaling == 'scaled' and k[0] != k[1]:
                    continue
                jobs.append(dict(fn='h_transcription', params=dict(opt=opt, kinds=list(k), scaling=scaling), max_paths=20000))
    if q:
        # partly unbounded bound arrays with scaling (the scaled/mixed combinations skipped above), and one-sided design-variable bounds
        for k in (('lower', 'upper'), ('both', 'upper')):
            jobs.append(dict(fn='h_transcription', params=dict(opt='SLSQP', kinds=list(k), scaling='scaled'), max_paths=20000))
    for opt in ('SLSQP',) if q else ('SLSQP', 'COBYLA', 'trust-constr'):
        for scaling in ('none', 'scaled'):
            jobs.append(dict(fn='h_transcription', params=dict(opt=opt, kinds=['both', 'lower'], scaling=scaling, dv='mixed'), max_paths=20000))
    if not q:
        for k in (('both', 'lower', 'upper'), ('upper', 'both', 'both'), ('lower', 'lower', 'both')):
            jobs.append(dict(fn='h_transcription', params=dict(opt='SLSQP', kinds=list(k), scaling='scaled'), max_paths=50000))
    # gradients handed to SciPy are the derivatives of the functions handed to SciPy (first and repeated runs, linear constraints)
    for opt in ('SLSQP',) if q else ('SLSQP', 'trust-constr'):
        for linear in (True, False):
            for scaling in ('none', 'scaled'):
                for runs in (1, 2):
                    if q and scaling == 'none' and runs == 1:
                        continue
                    jobs.append(dict(fn='h_gradients', params=dict(opt=opt, linear=linear, scaling=scaling, runs=runs), max_paths=20000))
    return jobs


class _Pass(om.ExplicitComponent):
    def __init__(self, n, xp):
        super().__init__()
        self._n, self._xp = n, xp

    def setup(self):
        n = self._n
        self.add_input('x', val=self._xp.ones(n))
        self.add_output('y', val=self._xp.ones(n))
        self.add_output('f', val=self._xp.ones(1))
        self.declare_partials('y', 'x', rows=np.arange(n), cols=np.arange(n), val=1.0)
        self.declare_partials('f', 'x')

    def compute(self, i, o):
        o['y'] = i['x'] * 1.0
        o['f'] = (i['x'] * i['x']).sum()

    def compute_partials(self, i, J):
        J['f', 'x'] = (2 * i['x']).reshape(1, -1)


class _Result:
    success = True
    status = 0
    message = 'stub'
    nit = 1


def h_transcription(ctx, opt, kinds, scaling, dv='two'):
    if ctx.sym:
        from symx import stubs
        import openmdao.utils.general_utils as GU
        import openmdao.core.system as SY
        stubs.install_float(GU, SY)
    n = len(kinds)
    xp = ctx.np
    if opt == 'trust-constr':
        # scipy.optimize.NonlinearConstraint converts its bounds to float on construction: the bounds are concrete rationals for
        # the new-style interface (constraint values and scaling stay symbolic)
        lo = ctx.consts(['-3/2', '1/4', '-7'][:n])
        up = ctx.consts(['5/2', '1/4', '11'][:n])
        eq = ctx.consts(['3/4', '-2', '5'][:n])
    else:
        lo = ctx.reals('lo', n, -50, 50)
        up = ctx.reals('up', n, -50, 50)
        eq = ctx.reals('eq', n, -50, 50)
        for i in range(n):
            ctx.assume(lo[i] <= up[i])
    if scaling == 'scaled' and opt == 'trust-constr':
        s, a = ctx.const('-5/2'), ctx.const('3/4')
        skw = dict(scaler=s, adder=a)
    elif scaling == 'scaled':
        s = ctx.real('s', -8, 8)
        ctx.assume((s >= ctx.const('1/8')) | (s <= ctx.const('-1/8')))
        a = ctx.real('a', -8, 8)
        skw = dict(scaler=s, adder=a)
    else:
        s, a, skw = 1, 0, {}
    ckw = {}
    if kinds[0] == 'equals':
        ckw['equals'] = eq
    else:
        lower = ctx.array([lo[i] if kinds[i] in ('both', 'lower') else ctx.const(-INF_BOUND) for i in range(n)])
        upper = ctx.array([up[i] if kinds[i] in ('both', 'upper') else ctx.const(INF_BOUND) for i in range(n)])
        if any(k in ('both', 'lower') for k in kinds):
            ckw['lower'] = lower
        if any(k in ('both', 'upper') for k in kinds):
            ckw['upper'] = upper
    if opt == 'trust-constr':
        dlo, dup = ctx.consts(['-20', '-30', '-40'][:n]), ctx.consts(['20', '30', '40'][:n])
    else:
        dlo = ctx.reals('dlo', n, -50, 50)
        dup = ctx.reals('dup', n, -50, 50)
        for i in range(n):
            ctx.assume(dlo[i] <= dup[i])
    dfin = [(True, True)] * n
    if dv == 'mixed':           # element 0 has no upper bound, element 1 no lower bound
        dfin = [(True, False), (False, True)] + [(True, True)] * (n - 2)
        dlo = ctx.array([dlo[i] if dfin[i][0] else ctx.const(-INF_BOUND) for i in range(n)])
        dup = ctx.array([dup[i] if dfin[i][1] else ctx.const(INF_BOUND) for i in range(n)])
    x0 = ctx.reals('x0', n, -50, 50)
    xr = ctx.reals('xr', n, -50, 50)          # the design SciPy "returns" (optimizer space)
    y = ctx.reals('y', n, -60, 60)            # arbitrary constraint values in model units
    p = om.Problem()
    p.model.add_subsystem('c', _Pass(n, xp), promotes=['*'])
    p.model.add_design_var('x', lower=dlo, upper=dup, **skw)
    p.model.add_objective('f')
    p.model.add_constraint('y', **ckw, **skw)
    p.driver = drv = om.ScipyOptimizeDriver(optimizer=opt, disp=False)
    p.setup()
    p.set_val('x', x0)
    captured = {}

    def fake_minimize(fun, x_init, method=None, jac=None, hess=None, bounds=None, constraints=(), tol=None, options=None, **kw):
        captured.update(bounds=bounds, constraints=constraints, x_init=x_init)
        # feasibility as SciPy sees it, for ARBITRARY constraint values: put (scaled) symbolic values into the driver's cache
        cache_save = drv._con_cache
        drv._con_cache = {'y': (y + a) * s}
        sat = True
        for con in constraints:
            if isinstance(con, dict):
                v = con['fun'](x_init, *con['args'])
                sat = sat & ((v == 0) if con['type'] == 'eq' else (v >= 0))
            else:
                v = con.fun(x_init)
                v = np.asarray(v).reshape(-1)[0] if np.ndim(v) else v
                sat = sat & (v >= con.lb) & (v <= con.ub)
        captured['sat'] = sat
        drv._con_cache = cache_save
        fun(xr)                                  # SciPy's last evaluation is at the point it returns
        r = _Result()
        r.x = xr
        r.fun = 0.0
        return r
    saved = SO.minimize
    SO.minimize = fake_minimize
    try:
        p.run_driver()
    finally:
        SO.minimize = saved
    ctx.check('reports_success', not drv.fail)
    # (i) constraint transcription
    dec = True
    for i in range(n):
        if kinds[0] == 'equals':
            dec = dec & (y[i] == eq[i])
        else:
            if kinds[i] in ('both', 'lower'):
                dec = dec & (y[i] >= lo[i])
            if kinds[i] in ('both', 'upper'):
                dec = dec & (y[i] <= up[i])
    sat = captured['sat']
    if ctx.sym:
        from symx.values import sb
        sat, dec = sb(sat), sb(dec)
        ctx.check('scipy_constraints_hold_iff_declared_bounds_hold', (sat & dec) | ((~sat) & (~dec)))
        ctx.check('declared_feasible_implies_scipy_feasible', (~dec) | sat)
        ctx.check('scipy_feasible_implies_declared_feasible', (~sat) | dec)
    else:
        ctx.check('scipy_constraints_hold_iff_declared_bounds_hold', bool(sat) == bool(dec))
    # (ii) variable bounds
    b = captured['bounds']
    if b is not None:
        pairs = list(zip(np.asarray(b.lb, dtype=object), np.asarray(b.ub, dtype=object))) if hasattr(b, 'lb') else [tuple(q) for q in b]
        for i in range(n):
            # a missing bound stays missing (None / +-inf for SciPy), a finite one is mapped; a negative scaler swaps the sides
            img = [(dlo[i] + a) * s if dfin[i][0] else None, (dup[i] + a) * s if dfin[i][1] else None]
            neg = bool(s < 0) if scaling == 'scaled' else False
            wl, wu = (img[1], img[0]) if neg else (img[0], img[1])
            for side, got, want in (('lower', pairs[i][0], wl), ('upper', pairs[i][1], wu)):
                if want is None:
                    unb = got is None or (not hasattr(got, 'diff') and not np.isfinite(float(got)))
                    ctx.check(f'bound_{side}[{i}]_absent', bool(unb), got=repr(got))
                else:
                    ctx.check(f'bound_{side}[{i}]_present', got is not None)
                    if got is not None:
                        ctx.eq(f'bound_{side}[{i}]', got, want)
    # (iii) the reported design is the returned one, in model units
    xm = p.get_val('x')
    for i in range(n):
        ctx.eq(f'design_written_back[{i}]', xm[i], xr[i] / s - a)
    ctx.eq('constraint_at_reported_design', p.get_val('y'), xm)
    ctx.observe('x', xm)


class _Lin(om.ExplicitComponent):
    """c = A x (+ x_i^2 when not linear); A is a non-design input"""

    def __init__(self, n, xp, linear):
        super().__init__()
        self._n, self._xp, self._linear = n, xp, linear

    def setup(self):
        n = self._n
        self.add_input('x', val=self._xp.ones(n))
        self.add_input('A', val=self._xp.ones((n, n)))
        self.add_output('c', val=self._xp.ones(n))
        self.add_output('f', val=self._xp.ones(1))
        self.declare_partials('c', 'x')
        self.declare_partials('f', 'x')

    def compute(self, i, o):
        x, A = i['x'], i['A']
        n = self._n
        c = [sum(A[r, k] * x[k] for k in range(n)) + (0 if self._linear else x[r] * x[r]) for r in range(n)]
        o['c'] = self._xp.array(c) if self._xp is not np else np.array(c, dtype=float)
        o['f'] = (x * x).sum()

    def compute_partials(self, i, J):
        x, A = i['x'], i['A']
        n = self._n
        Jc = A.copy()
        if not self._linear:
            for r in range(n):
                Jc[r, r] = Jc[r, r] + 2 * x[r]
        J['c', 'x'] = Jc
        J['f', 'x'] = (2 * x).reshape(1, -1)


def h_gradients(ctx, opt, linear, scaling, runs):
    """every (fun, jac) pair handed to SciPy is consistent: jac(x) is the derivative of fun(x) with respect to the optimizer's
    variables, at a symbolic design point - on the first run and on a repeated run after the coefficients changed"""
    if ctx.sym:
        from symx import stubs
        import openmdao.utils.general_utils as GU
        import openmdao.core.system as SY
        stubs.install_float(GU, SY)
    n = 2
    xp = ctx.np
    new_style = opt == 'trust-constr'
    A1 = ctx.consts([['3/2', '-1'], ['1/2', '2']])
    A2 = ctx.consts([['-2', '1/4'], ['3', '-5/2']]) if new_style else ctx.reals('A', (n, n), -5, 5)
    if scaling == 'scaled':
        if new_style:
            sx, ax, sc, ac = ctx.const('-3/2'), ctx.const('1/4'), ctx.const('-5/2'), ctx.const('3/4')
        else:
            sx, sc = ctx.real('sx', -8, 8), ctx.real('sc', -8, 8)
            for v in (sx, sc):
                ctx.assume((v >= ctx.const('1/8')) | (v <= ctx.const('-1/8')))
            ax, ac = ctx.real('ax', -8, 8), ctx.real('ac', -8, 8)
        xkw, ckw = dict(scaler=sx, adder=ax), dict(scaler=sc, adder=ac)
    else:
        xkw, ckw = {}, {}
    xs = ctx.reals('xs', n, -20, 20)            # the point (optimizer space) at which SciPy asks for values and gradients
    p = om.Problem()
    p.model.add_subsystem('c', _Lin(n, xp, linear), promotes=['*'])
    p.model.add_design_var('x', lower=ctx.consts(['-30', '-30']), upper=ctx.consts(['30', '30']), **xkw)
    p.model.add_objective('f')
    if new_style and linear:
        # an ARRAY linear constraint cannot be handed to a new-style optimizer at all (ScipyOptimizeDriver passes one row of the
        # matrix with the whole bound arrays and SciPy's LinearConstraint raises ValueError): no success is reported, so that is
        # outside the property; two one-element linear constraints are used instead
        p.model.add_constraint('c', indices=[0], lower=-1.0, upper=100.0, linear=True, **ckw)
        p.model.add_constraint('c', indices=[1], lower=-100.0, upper=2.0, linear=True, alias='c1', **ckw)
    else:
        p.model.add_constraint('c', lower=ctx.consts(['-1', '-100']), upper=ctx.consts(['100', '2']), linear=linear, **ckw)
    p.driver = drv = om.ScipyOptimizeDriver(optimizer=opt, disp=False, singular_jac_behavior='ignore')
    p.setup()
    p.set_val('x', ctx.consts(['1/2', '-3/4']))
    state = dict(run=0)

    def fake_minimize(fun, x_init, method=None, jac=None, hess=None, bounds=None, constraints=(), tol=None, options=None, **kw):
        state['run'] += 1
        tag = f"run{state['run']}:"
        f0 = fun(xs)
        g0 = jac(xs) if callable(jac) else None

        def refresh(x):
            fun(x)
            if callable(jac):
                jac(x)
        if g0 is not None:
            def fd_obj(d):
                r = fun(np.array([float(v) for v in xs]) + d)
                refresh(xs)
                return [r]
            ctx.deriv_matrix(tag + 'objective_gradient', np.asarray(g0).reshape(1, -1), [f0], xs, fd_obj)
        k = 0
        for con in constraints:
            if isinstance(con, dict):
                if 'jac' not in con:
                    continue
                v = con['fun'](xs, *con['args'])
                g = con['jac'](xs, *con['args'])

                def fd_con(d, con=con):
                    fun(np.array([float(q) for q in xs]) + d)
                    r = con['fun'](xs, *con['args'])
                    refresh(xs)
                    return [r]
                ctx.deriv_matrix(tag + f'constraint[{k}]_gradient', np.asarray(g).reshape(1, -1), [v], xs, fd_con)
            elif hasattr(con, 'A'):          # LinearConstraint: A x, compared with the (scaled) constraint values the driver computes
                cname = list(drv._cons)[k]
                cv = np.asarray(drv._con_cache[cname]).reshape(-1)

                def fd_lin(d):
                    fun(np.array([float(q) for q in xs]) + d)
                    r = np.asarray(drv._con_cache[cname], dtype=float).reshape(-1).copy()
                    refresh(xs)
                    return r
                Am = np.atleast_2d(np.asarray(con.A))
                ctx.deriv_matrix(tag + f'linear_constraint[{k}]_matrix', Am, list(cv), xs, fd_lin)
            else:                           # NonlinearConstraint
                v = con.fun(xs)
                g = con.jac(xs)

                def fd_nl(d, con=con):
                    fun(np.array([float(q) for q in xs]) + d)
                    r = con.fun(xs)
                    refresh(xs)
                    return [np.asarray(r).reshape(-1)[0]]
                ctx.deriv_matrix(tag + f'constraint[{k}]_gradient', np.asarray(g).reshape(1, -1), [np.asarray(v).reshape(-1)[0]], xs, fd_nl)
            k += 1
        state['ncon'] = k
        r = _Result()
        r.x = xs
        r.fun = 0.0
        return r
    saved = SO.minimize
    SO.minimize = fake_minimize
    try:
        p.set_val('A', A1 if runs == 2 else A2)
        p.run_driver()
        if runs == 2:
            p.set_val('A', A2)
            p.run_driver()
    finally:
        SO.minimize = saved
    ctx.check('constraints_were_handed_over', state.get('ncon', 0) >= n)
    ctx.observe('x', p.get_val('x'))
