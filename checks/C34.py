"""C34 Function-based components compute their functions and exact partials (non-jax paths; jax is outside the claim)."""
import numpy as np
import openmdao.api as om
import openmdao.func_api as omf

LEVEL = 'model_checking'
EXPLANATION = ('ExplicitFuncComp and ImplicitFuncComp built from plain Python functions (omf.wrap metadata: shapes, defaults, '
               'declare_partials / declare_coloring with method cs or fd, user compute_partials / linearize / solve_nonlinear / '
               'solve_linear functions) are run inside real Problems with symbolic inputs.  Outputs must be the terms the wrapped '
               'function returns for those inputs; total derivatives must be the chain-rule derivatives of those terms (complex '
               'step: step 1e-40, compared within 1e-9; finite difference: the exact forward quotient with the declared step; user '
               'partial functions: exactly what they set), with and without sparsity coloring; for the implicit component the '
               'residuals are the wrapped function, the state returned by solve_nonlinear is stored, and the totals are the '
               'derivatives of the (rational) solution with respect to every input.')
BOUNDS = dict(functions='4 explicit families (elementwise, reductions to a scalar, 2-D shapes, mixed scalar/array) and 2 implicit ones (scalar quadratic residual, 2x2 linear system)',
              sizes='arrays of 2-3 elements, 2x3 matrices', methods='cs | fd forward step 2^-10 | user partial functions', coloring='declared for cs (detected at a fixed generic point)')
STUBS = ['np proxy for the framework modules (the wrapped user functions use operators and methods only)', 'exact elimination LU for DirectSolver (symx.stubs.install_lu)',
         'module-global float pass-through in general_utils/system/approximation schemes']
ASSUMPTIONS = ['reals; inputs bounded in [-4, 4]; denominators of the implicit solutions bounded away from 0']
OUTSIDE = ['every jax path: derivs_method="jax", JaxExplicitComponent / JaxImplicitComponent, jit - XLA-compiled code cannot carry symbolic values '
           '(DESIGN.md section 6): a change that only affects those paths is not seen by this check',
           'option-valued (is_option) function arguments', 'IEEE round-off of the complex step']

STEP = 2.0 ** -10


# ------------------------------------------------------------------ wrapped user functions (plain Python: operators and methods only)
def f_elem(a, b):
    x = a * a * b
    y = a + 3.0 * b
    return x, y


def f_reduce(a, b):
    s = (a * b).sum()
    t = a * s
    return s, t


def f_matrix(m, k):
    sq = m * m * k
    tot = m.sum() * k
    return sq, tot


def f_mixed(u, v):
    w = u * v * v + 2.0 * u
    return w


EXPLICIT = {
    'elem': (f_elem, dict(a=(3,), b=(3,)), dict(x=(3,), y=(3,))),
    'reduce': (f_reduce, dict(a=(2,), b=(2,)), dict(s=(), t=(2,))),
    'matrix': (f_matrix, dict(m=(2, 3), k=()), dict(sq=(2, 3), tot=())),
    'mixed': (f_mixed, dict(u=(), v=(3,)), dict(w=(3,))),
}


def harnesses(tier, seed):
    q = tier == 'quick'
    jobs = []
    for fam in EXPLICIT:
        for method in ('cs', 'fd'):
            for coloring in (False, True):
                if coloring and (method == 'fd' or fam in ('reduce',)):
                    continue
                if q and fam == 'matrix' and method == 'fd':
                    continue
                jobs.append(dict(fn='h_explicit', params=dict(fam=fam, method=method, coloring=coloring)))
    for fam in ('elem', 'mixed') if q else list(EXPLICIT):
        for mode in ('fwd', 'rev'):
            jobs.append(dict(fn='h_explicit_user_partials', params=dict(fam=fam, mode=mode)))
    for mode in ('fwd', 'rev'):
        for how in ('cs_direct', 'user_linearize', 'user_all'):
            jobs.append(dict(fn='h_implicit_scalar', params=dict(mode=mode, how=how)))
        for how in ('cs_direct',) if q else ('cs_direct', 'coloring'):
            jobs.append(dict(fn='h_implicit_linsys', params=dict(mode=mode, how=how)))
    return jobs


def _install(ctx, lu=False):
    if ctx.sym:
        from symx import stubs
        import openmdao.utils.general_utils as GU
        import openmdao.core.system as SY
        import openmdao.approximation_schemes.finite_difference as FDM
        import openmdao.approximation_schemes.complex_step as CSM
        import openmdao.approximation_schemes.approximation_scheme as ASM
        stubs.install_float(GU, SY, FDM, CSM, ASM)
        if lu:
            stubs.install_lu()


def _wrap(fam, method=None, coloring=False):
    f, ins, outs = EXPLICIT[fam]
    w = omf.wrap(f)
    for n, shp in ins.items():
        w = w.add_input(n, shape=shp) if shp != () else w.add_input(n, val=1.0)
    for n, shp in outs.items():
        w = w.add_output(n, shape=shp) if shp != () else w.add_output(n, val=1.0)
    if coloring:
        w = w.declare_coloring(wrt='*', method=method, show_summary=False, show_sparsity=False, num_full_jacs=2, tol=1e-12)
    elif method is not None:
        kw = dict(step=STEP, form='forward') if method == 'fd' else {}
        w = w.declare_partials(of='*', wrt='*', method=method, **kw)
    return w, f, ins, outs


def _vals(ctx, ins, generic=False):
    vals = {}
    for k, (n, shp) in enumerate(ins.items()):
        size = int(np.prod(shp)) if shp != () else 1
        if generic:
            v = ctx.consts([0.37 + 0.61 * j - 0.9 * k for j in range(size)])
        else:
            v = ctx.reals(n, size, -4, 4)
        vals[n] = v
    return vals


def _call(f, ins, vals, xp):
    args = []
    for n, shp in ins.items():
        v = vals[n]
        args.append(v[0] if shp == () else (np.asarray(v, dtype=object if xp is not np else float).reshape(shp)))
    r = f(*args)
    return r if isinstance(r, tuple) else (r,)


def h_explicit(ctx, fam, method, coloring):
    _install(ctx)
    w, f, ins, outs = _wrap(fam, method, coloring)
    p = om.Problem()
    p.model.add_subsystem('c', om.ExplicitFuncComp(w))
    p.setup(force_alloc_complex=(method == 'cs'))
    p.final_setup()
    onames = ['c.' + n for n in outs]
    inames = ['c.' + n for n in ins]
    if coloring:        # sparsity is detected at the first linearization: a fixed generic point, as in a user's first run
        for n, v in _vals(ctx, ins, generic=True).items():
            p.set_val('c.' + n, np.asarray(v).reshape(ins[n]) if ins[n] != () else v[0])
        p.run_model()
        p.compute_totals(of=onames, wrt=inames)
    vals = _vals(ctx, ins)
    for n, v in vals.items():
        p.set_val('c.' + n, np.asarray(v).reshape(ins[n]) if ins[n] != () else v[0])
    p.run_model()
    want = _call(f, ins, vals, ctx.np)
    got = {}
    for (n, shp), wv in zip(outs.items(), want):
        got[n] = np.array(np.asarray(p.get_val('c.' + n)).reshape(-1))
        ctx.eq('output:' + n, got[n], np.asarray(wv, dtype=object if ctx.sym else float).reshape(-1))
    J = p.compute_totals(of=onames, wrt=inames, return_format='flat_dict')
    if coloring and fam in ('elem', 'mixed'):      # the other families have a dense row and column: OpenMDAO drops a coloring that saves nothing
        ctx.check('coloring_in_use', p.model.c._coloring_info.coloring is not None)
    for n in ins:
        x = np.asarray(vals[n]).reshape(-1)

        def shifted(delta, n=n):
            v2 = {m: (np.array([float(t) for t in np.asarray(vals[m]).reshape(-1)]) if not ctx.sym else vals[m]) for m in ins}
            v2 = dict(v2)
            v2[n] = np.asarray(v2[n]).reshape(-1) + np.asarray(delta).reshape(-1)
            return _call(f, ins, v2, np if not ctx.sym else ctx.np)
        for (o, shp), wv in zip(outs.items(), want):
            Jo = J['c.' + o, 'c.' + n]
            oi = list(outs).index(o)
            if method == 'cs':
                ctx.deriv_matrix(f'd{o}/d{n}', Jo, np.asarray(wv, dtype=object if ctx.sym else float).reshape(-1), x,
                                 lambda d, oi=oi: np.asarray(shifted(d)[oi], dtype=float).reshape(-1), 1e-9)
            else:
                # forward difference with the declared step: the exact quotient of the wrapped function
                base = np.asarray(wv, dtype=object if ctx.sym else float).reshape(-1)
                Q = ctx.zeros((base.size, x.size)) if ctx.sym else np.zeros((base.size, x.size))
                for j in range(x.size):
                    d = np.zeros(x.size)
                    d[j] = STEP
                    if ctx.sym:
                        d = ctx.consts(d.tolist())
                    up = np.asarray(shifted(d)[oi], dtype=object if ctx.sym else float).reshape(-1)
                    for i in range(base.size):
                        Q[i, j] = (up[i] - base[i]) / STEP
                ctx.eq(f'd{o}/d{n}:forward_quotient', np.asarray(Jo), Q, 1e-9)
    ctx.observe('outs', [got[n] for n in outs])


def h_explicit_user_partials(ctx, fam, mode):
    """compute_partials given as a function: the framework must use exactly what it sets (and nothing it does not set)"""
    _install(ctx)
    f, ins, outs = EXPLICIT[fam]
    w = omf.wrap(f)
    for n, shp in ins.items():
        w = w.add_input(n, shape=shp) if shp != () else w.add_input(n, val=1.0)
    for n, shp in outs.items():
        w = w.add_output(n, shape=shp) if shp != () else w.add_output(n, val=1.0)
    w = w.declare_partials(of='*', wrt='*')
    vals = _vals(ctx, ins)
    want = _call(f, ins, vals, ctx.np)
    # the "user" partials: chain-rule derivatives of the function's own terms (sym) / central differences (float replay)
    truth = {}
    for (o, shp), wv in zip(outs.items(), want):
        base = np.asarray(wv, dtype=object if ctx.sym else float).reshape(-1)
        for n in ins:
            x = np.asarray(vals[n]).reshape(-1)
            M = ctx.zeros((base.size, x.size)) if ctx.sym else np.zeros((base.size, x.size))
            for j in range(x.size):
                if ctx.sym:
                    from symx.ctx import sym_id
                    from symx.values import SR
                    for i in range(base.size):
                        M[i, j] = SR.lift(base[i]).diff(sym_id(x[j]))
                else:
                    h = 1e-6
                    v2 = {m: np.array([float(t) for t in np.asarray(vals[m]).reshape(-1)]) for m in ins}
                    up, dn = dict(v2), dict(v2)
                    up[n] = v2[n].copy()
                    up[n][j] += h
                    dn[n] = v2[n].copy()
                    dn[n][j] -= h
                    oi = list(outs).index(o)
                    M[:, j] = (np.asarray(_call(f, ins, up, np)[oi], dtype=float).reshape(-1) - np.asarray(_call(f, ins, dn, np)[oi], dtype=float).reshape(-1)) / (2 * h)
            truth[o, n] = M

    def cp(*args):
        J = args[-1]
        for (o, n), M in truth.items():
            J[o, n] = M
    p = om.Problem()
    p.model.add_subsystem('c', om.ExplicitFuncComp(w, compute_partials=cp))
    p.setup(mode=mode)
    p.final_setup()
    for n, v in vals.items():
        p.set_val('c.' + n, np.asarray(v).reshape(ins[n]) if ins[n] != () else v[0])
    p.run_model()
    for (n, shp), wv in zip(outs.items(), want):
        ctx.eq('output:' + n, np.asarray(p.get_val('c.' + n)).reshape(-1), np.asarray(wv, dtype=object if ctx.sym else float).reshape(-1))
    J = p.compute_totals(of=['c.' + n for n in outs], wrt=['c.' + n for n in ins], return_format='flat_dict')
    for (o, n), M in truth.items():
        ctx.eq(f'd{o}/d{n}', np.asarray(J['c.' + o, 'c.' + n]), M, 0 if ctx.sym else 1e-9)
    ctx.observe('J', [np.asarray(v) for v in J.values()])


# ------------------------------------------------------------------ implicit
def r_quad(a, b, c, x):
    R_x = a * x * x + b * x + c
    return R_x


def h_implicit_scalar(ctx, mode, how):
    """R(x) = a x^2 + b x + c with the state set by a user solve_nonlinear to a symbolic root r (c is chosen so that r is a
    root); totals dx/d(a, b, c) = -(dR/dx)^-1 dR/d(a, b, c)"""
    _install(ctx, lu=True)
    a = ctx.real('a', 0.5, 4)
    b = ctx.real('b', 0.5, 4)
    r = ctx.real('r', 0.25, 3)          # the root; dR/dx = 2 a r + b >= 0.75 > 0
    c = -(a * r * r + b * r)

    def solve_nl(a_, b_, c_, x_):
        return r

    def linearize(a_, b_, c_, x_, partials):
        partials['x', 'a'] = x_ * x_
        partials['x', 'b'] = x_
        partials['x', 'c'] = 1.0
        partials['x', 'x'] = 2 * a_ * x_ + b_
        return 1.0 / (2 * a_ * x_ + b_)

    def solve_linear(d_x, mode_, inv_jac):
        return inv_jac * d_x
    w = omf.wrap(r_quad).add_output('x', resid='R_x', val=0.0)
    kw = dict(solve_nonlinear=solve_nl)
    if how == 'cs_direct':
        w = w.declare_partials(of='*', wrt='*', method='cs')
    else:
        w = w.declare_partials(of='*', wrt='*')
        kw['linearize'] = linearize
        if how == 'user_all':
            kw['solve_linear'] = solve_linear
    p = om.Problem()
    comp = p.model.add_subsystem('c', om.ImplicitFuncComp(w, **kw))
    if how != 'user_all':
        comp.linear_solver = om.DirectSolver(assemble_jac=False)
    p.setup(mode=mode, force_alloc_complex=(how == 'cs_direct'))
    p.final_setup()
    p.set_val('c.a', a)
    p.set_val('c.b', b)
    p.set_val('c.c', c)
    p.run_model()
    x = np.asarray(p.get_val('c.x')).reshape(-1)[0]
    ctx.eq('state_is_what_solve_nonlinear_returned', x, r)
    p.model.run_apply_nonlinear()
    res = np.asarray(p.model._residuals['c.x']).reshape(-1)[0]
    ctx.eq('residual_is_the_wrapped_function', res, a * r * r + b * r + c)
    J = p.compute_totals(of=['c.x'], wrt=['c.a', 'c.b', 'c.c'], return_format='flat_dict')
    den = 2 * a * r + b
    tol = 1e-9 if how == 'cs_direct' else 0
    for n, dR in (('a', r * r), ('b', r), ('c', 1)):
        ctx.eq(f'dx/d{n}', np.asarray(J['c.x', 'c.' + n]).reshape(-1)[0], -dR / den, tol if ctx.sym else 1e-7)
    ctx.observe('x', x)


def r_lin(A, b, x):
    rx = A.dot(x) - b
    return rx


def h_implicit_linsys(ctx, mode, how):
    """A x - b = 0 (2x2) solved by Newton + DirectSolver on the component; partials by complex step (optionally colored)"""
    _install(ctx, lu=True)
    n = 2
    # diagonally dominant symbolic matrix: determinant bounded away from 0
    A = ctx.zeros((n, n)) if ctx.sym else np.zeros((n, n))
    A[0, 0] = ctx.real('A00', 2, 4)
    A[1, 1] = ctx.real('A11', 2, 4)
    A[0, 1] = ctx.real('A01', -1, 1)
    A[1, 0] = ctx.real('A10', -1, 1)
    b = ctx.reals('b', n, -4, 4)
    det = A[0, 0] * A[1, 1] - A[0, 1] * A[1, 0]
    xs = [(b[0] * A[1, 1] - A[0, 1] * b[1]) / det, (A[0, 0] * b[1] - A[1, 0] * b[0]) / det]

    def solve_nl(A_, b_, x_):
        return ctx.array(xs) if ctx.sym else np.array(xs, dtype=float)
    w = omf.wrap(r_lin).add_input('A', shape=(n, n)).add_input('b', shape=(n,)).add_output('x', resid='rx', shape=(n,))
    if how == 'coloring':
        w = w.declare_coloring(wrt='*', method='cs', show_summary=False, show_sparsity=False, num_full_jacs=2, tol=1e-12)
    else:
        w = w.declare_partials(of='*', wrt='*', method='cs')
    p = om.Problem()
    comp = p.model.add_subsystem('c', om.ImplicitFuncComp(w, solve_nonlinear=solve_nl))
    comp.linear_solver = om.DirectSolver(assemble_jac=False)
    p.setup(mode=mode, force_alloc_complex=True)
    p.final_setup()
    if how == 'coloring':
        p.set_val('c.A', ctx.consts([[3.1, 0.4], [-0.7, 2.6]]))
        p.set_val('c.b', ctx.consts([0.9, -1.3]))
        saved = xs[:]
        xs[:] = [ctx.const(0.37), ctx.const(-0.52)] if ctx.sym else [0.37, -0.52]
        p.run_model()
        p.compute_totals(of=['c.x'], wrt=['c.A', 'c.b'])
        xs[:] = saved
    p.set_val('c.A', A)
    p.set_val('c.b', b)
    p.run_model()
    x = np.array(np.asarray(p.get_val('c.x')).reshape(-1))
    ctx.eq('state_is_what_solve_nonlinear_returned', x, ctx.array(xs) if ctx.sym else np.array(xs, dtype=float))
    p.model.run_apply_nonlinear()
    res = np.asarray(p.model._residuals['c.x']).reshape(-1)
    ctx.eq('residual_is_the_wrapped_function', res, (A.dot(x) - b), 1e-9)
    J = p.compute_totals(of=['c.x'], wrt=['c.A', 'c.b'], return_format='flat_dict')
    # dx/db = A^-1 ; dx/dA[i,j] = -A^-1[:, i] x[j]
    Ainv = [[A[1, 1] / det, -A[0, 1] / det], [-A[1, 0] / det, A[0, 0] / det]]
    Jb = np.asarray(J['c.x', 'c.b'])
    JA = np.asarray(J['c.x', 'c.A'])
    for i in range(n):
        for j in range(n):
            ctx.eq(f'dx/db[{i},{j}]', Jb[i, j], Ainv[i][j], 1e-9)
            for k in range(n):
                ctx.eq(f'dx/dA[{k};{i},{j}]', JA[k, i * n + j], -Ainv[k][i] * xs[j], 1e-9)
    ctx.observe('x', x)
