"""C02 Forward and reverse linear operators are exact adjoints."""
import numpy as np
import openmdao.api as om

from progfam.library import LIBRARY, IMPLICIT
from checks.C24 import PROGS as C24_PROGS
from checks.C08 import apply_scaling

LEVEL = 'model_checking'
EXPLANATION = ('For each program two real Problems are built, one set up in fwd and one in rev mode, at the same symbolic state. With '
               'symbolic seed vectors v and w the bilinear identities <w, A v> == <A^T w, v> are decided for: Problem.compute_jacvec_product '
               '(design-variable space vs response space), System.run_apply_linear at the root and in every sub-group/component '
               '(d_outputs,d_inputs -> d_residuals vs its transpose), System.run_solve_linear (A^-1 vs A^-T, RunOnce and DirectSolver), and '
               'the full linear data transfer of every group (scatter vs gather-add).  Both sides are polynomials in the data, v and w; '
               'the identity is decided exactly (margin only where unit factors / solver scaling constants are on the path).')
BOUNDS = dict(programs='progfam.library explicit members with dense, rows/cols-sparse and matrix-free partials, src_indices with duplicates and negatives, '
              'units, solver scaling; implicit members with DirectSolver (dictionary, csc, dense jacobians)', seeds='fully symbolic', vector_length='<= 12')
STUBS = ['exact-elimination LU / symx.sparse (DirectSolver programs)', 'np.bincount on object weights (reverse transfer)']
ASSUMPTIONS = ['nonsingular system jacobian on the explored paths (solve_linear)', 'reals']
OUTSIDE = ['PETSc/MPI transfers', 'iterative linear solvers (their fwd/rev duality holds only at convergence)']


def harnesses(tier, seed):
    q = tier == 'quick'
    jobs = []
    progs = ['basic_scaled', 'idx_flat', 'auto_units', 'matfree', 'promote_chain', 'units_ref0', 'chain3'] if q else list(LIBRARY) + ['chain3', 'diamond']
    for prog in progs:
        jobs.append(dict(fn='h_jvp', params=dict(prog=prog)))
        jobs.append(dict(fn='h_apply', params=dict(prog=prog, scaled=False)))
        jobs.append(dict(fn='h_transfer', params=dict(prog=prog)))
        if not q or prog in ('idx_flat', 'matfree', 'auto_units'):
            jobs.append(dict(fn='h_apply', params=dict(prog=prog, scaled=True)))
        jobs.append(dict(fn='h_solve', params=dict(prog=prog)))
    for prog in (['rhs_redundant', 'asm_units_csc', 'branches'] if q else ['rhs_redundant', 'asm_units_csc', 'asm_units_dense', 'branches', 'chain3', 'diamond']):
        jobs.append(dict(fn='h_totals_fwd_rev', params=dict(prog=prog)))
    for prog in (['implicit_asm', 'implicit'] if q else list(IMPLICIT)):
        jobs.append(dict(fn='h_jvp', params=dict(prog=prog)))
        jobs.append(dict(fn='h_apply', params=dict(prog=prog, scaled=False)))
        jobs.append(dict(fn='h_solve', params=dict(prog=prog)))
    return jobs


def _make(prog, scaled=False):
    if prog in C24_PROGS:
        P = C24_PROGS[prog]()
        P.desvars, P.responses = [], []
    else:
        P = (LIBRARY.get(prog) or IMPLICIT[prog])()
    if scaled:
        apply_scaling(P, 'arr2')
    return P


def _pair(ctx, prog, scaled=False):
    """the same program set up in fwd and in rev mode, at the same symbolic state, linearised"""
    out = []
    vals = states = None
    if prog in IMPLICIT and ctx.sym:
        from symx import stubs
        stubs.install_lu()
    for mode in ('fwd', 'rev'):
        P = _make(prog, scaled)
        p = P.build(ctx, mode=mode)
        if vals is None:
            vals = P.set_indeps(ctx, p)
            states = {}
            for sv in getattr(P, 'states', []):
                states[sv.abs] = ctx.reals('s_' + sv.abs.replace('.', '_'), sv.shape, -10, 10)
        else:
            for k, v in vals.items():
                p.set_val(k, v)
        for k, v in states.items():
            p.set_val(k, v)
        p.run_model()
        try:
            p.model.run_linearize()
        except (RuntimeError, np.linalg.LinAlgError) as err:
            if isinstance(err, RuntimeError) and 'ingular' not in str(err):
                raise
            ctx.assume(False)        # precondition: nonsingular system jacobian at this state
        out.append((P, p))
    return out[0], out[1], vals


def _tol(P):
    return 1e-9 if (P.uses_units() or any('ref' in f for f in P.features)) else 0


def _dot(a, b):
    a = np.asarray(a, dtype=object).reshape(-1)
    b = np.asarray(b, dtype=object).reshape(-1)
    s = 0
    for x, y in zip(a, b):
        s = s + x * y
    return s


def h_jvp(ctx, prog):
    (P, pf), (_, pr), vals = _pair(ctx, prog)
    of, wrt = P.ofs, P.wrts
    v = {w: ctx.reals(f'v{i}', np.shape(pf.get_val(w)), -5, 5) for i, w in enumerate(wrt)}
    w_ = {o: ctx.reals(f'w{i}', np.shape(pf.get_val(o)), -5, 5) for i, o in enumerate(of)}
    try:
        Jv = pf.compute_jacvec_product(of, wrt, 'fwd', v)
        JTw = pr.compute_jacvec_product(of, wrt, 'rev', w_)
    except np.linalg.LinAlgError:
        ctx.assume(False)
        return
    lhs = sum(_dot(w_[o], Jv[o]) for o in of)
    rhs = sum(_dot(JTw[w], v[w]) for w in wrt)
    ctx.eq('<w,Jv>==<JTw,v>', lhs, rhs, _tol(P))
    # and J v agrees with the full jacobian applied to v (so both are not trivially zero)
    J = pf.compute_totals(of=of, wrt=wrt, return_format='flat_dict')
    for o in of:
        acc = 0
        for w in wrt:
            acc = acc + np.asarray(J[o, w], dtype=object).dot(np.asarray(v[w], dtype=object).reshape(-1))
        ctx.eq(f'Jv[{o}]', np.asarray(Jv[o]).reshape(-1), acc, _tol(P))
    ctx.observe('lhs', lhs)


def _systems(model):
    yield model
    for s in model.system_iter(include_self=False, recurse=True):
        yield s


def h_apply(ctx, prog, scaled):
    (P, pf), (_, pr), vals = _pair(ctx, prog, scaled)
    tol = _tol(P)
    k = 0
    for sf, sr in zip(_systems(pf.model), _systems(pr.model)):
        k += 1
        no, ni = len(sf._doutputs), len(sf._dinputs)
        if no == 0:
            continue
        u = ctx.reals(f'u{k}', no, -5, 5)
        x = ctx.reals(f'x{k}', ni, -5, 5) if ni else None
        w = ctx.reals(f'w{k}', no, -5, 5)
        is_group = isinstance(sf, om.Group)
        # forward: (d_outputs[, d_inputs]) -> d_residuals.  A group overwrites its own connected inputs by the transfer, so for
        # groups the operator is taken as a function of d_outputs only (unconnected inputs are held at zero).
        sf._doutputs.set_val(u)
        sf._dinputs.set_val(0.0 if is_group or x is None else x)
        sf._dresiduals.set_val(0.0)
        sf.run_apply_linear('fwd')
        Au = sf._dresiduals.asarray(copy=True)
        # reverse: d_residuals -> (d_outputs[, d_inputs])
        sr._dresiduals.set_val(w)
        sr._doutputs.set_val(0.0)
        sr._dinputs.set_val(0.0)
        sr.run_apply_linear('rev')
        ATw_o = sr._doutputs.asarray(copy=True)
        ATw_i = sr._dinputs.asarray(copy=True)
        lhs = _dot(w, Au)
        rhs = _dot(ATw_o, u)
        if not is_group and x is not None:
            rhs = rhs + _dot(ATw_i, x)
        ctx.eq(f'apply_linear[{sf.pathname or "root"}]', lhs, rhs, tol)
        for sys_ in (sf, sr):
            sys_._doutputs.set_val(0.0)
            sys_._dinputs.set_val(0.0)
            sys_._dresiduals.set_val(0.0)
    ctx.observe('n', k)


def h_solve(ctx, prog):
    (P, pf), (_, pr), vals = _pair(ctx, prog)
    tol = _tol(P)
    n = len(pf.model._doutputs)
    r = ctx.reals('r', n, -5, 5)
    w = ctx.reals('w', n, -5, 5)
    try:
        pf.model._dresiduals.set_val(r)
        pf.model._doutputs.set_val(0.0)
        pf.model.run_solve_linear('fwd')
        x = pf.model._doutputs.asarray(copy=True)          # A^-1 r
        pr.model._doutputs.set_val(w)
        pr.model._dresiduals.set_val(0.0)
        pr.model.run_solve_linear('rev')
        y = pr.model._dresiduals.asarray(copy=True)        # A^-T w
    except np.linalg.LinAlgError:
        ctx.assume(False)
        return
    ctx.eq('<w,A^-1 r>==<A^-T w,r>', _dot(w, x), _dot(y, r), tol)
    # the forward solve really inverts apply_linear: A x == r
    pf.model._doutputs.set_val(x)
    pf.model._dresiduals.set_val(0.0)
    pf.model.run_apply_linear('fwd')
    ctx.eq('A(A^-1 r)==r', pf.model._dresiduals.asarray(copy=True), r, tol)
    ctx.observe('x', x)


def h_transfer(ctx, prog):
    (P, pf), (_, pr), vals = _pair(ctx, prog)
    tol = _tol(P)
    k = 0
    for gf, gr in zip(_systems(pf.model), _systems(pr.model)):
        if not isinstance(gf, om.Group):
            continue
        k += 1
        no, ni = len(gf._doutputs), len(gf._dinputs)
        if ni == 0:
            continue
        u = ctx.reals(f'u{k}', no, -5, 5)
        z = ctx.reals(f'z{k}', ni, -5, 5)
        gf._doutputs.set_val(u)
        gf._dinputs.set_val(0.0)
        with gf._scaled_context_all():
            gf._transfer('linear', 'fwd')
        Tu = gf._dinputs.asarray(copy=True)
        gr._dinputs.set_val(z)
        gr._doutputs.set_val(0.0)
        with gr._scaled_context_all():
            gr._transfer('linear', 'rev')
        TTz = gr._doutputs.asarray(copy=True)
        ctx.eq(f'transfer[{gf.pathname or "root"}]', _dot(z, Tu), _dot(TTz, u), tol)
        for g in (gf, gr):
            g._doutputs.set_val(0.0)
            g._dinputs.set_val(0.0)
    ctx.observe('n', k)


def h_totals_fwd_rev(ctx, prog):
    """the reverse-mode total jacobian (adjoint solves, incl. the cache of adjoint solutions for redundant right-hand sides) is
    the same matrix as the forward-mode one"""
    if ctx.sym:
        from symx import stubs
        stubs.install_lu()
    Js = {}
    vals = None
    for mode in ('fwd', 'rev'):
        P = _make(prog)
        if prog == 'rhs_redundant':
            P = LIBRARY[prog]()          # keeps its declared design variables / responses: they define the redundant adjoints
        p = P.build(ctx, mode=mode)
        if vals is None:
            vals = P.set_indeps(ctx, p)
        else:
            for k, v in vals.items():
                p.set_val(k, v)
        p.run_model()
        Js[mode] = p.compute_totals(of=P.ofs, wrt=P.wrts, return_format='array')
        # a second call must not be polluted by solutions cached during the first one
        Js[mode + '2'] = p.compute_totals(of=P.ofs, wrt=P.wrts, return_format='array')
    tol = _tol(P)
    ctx.eq('J_rev==J_fwd', Js['rev'], Js['fwd'], tol)
    ctx.eq('J_rev_second_call', Js['rev2'], Js['fwd'], tol)
    ctx.eq('J_fwd_second_call', Js['fwd2'], Js['fwd'], tol)
    ctx.observe('J', Js['fwd'])
