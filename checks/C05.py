"""C05 Index objects follow NumPy indexing semantics."""
import itertools

import numpy as np
import openmdao.utils.indexer as IX
from openmdao.utils.indexer import indexer, array2slice

LEVEL = 'model_checking'
EXPLANATION = ('openmdao.utils.indexer executed on symbolic integers: (a) array2slice on index arrays whose entries are '
               'unbounded symbolic integers (whenever a slice is returned it selects exactly the array, for every source '
               'length that admits the array); (b) int and 1-D array indices with unbounded symbolic integer entries into '
               'flat sources of extent 1..5 (resolved positions == idx mod n, IndexError iff out of range); (c) slices, '
               'tuples, ellipsis and non-flat multi-dimensional sources with start/stop/step/int entries as symbolic integers '
               'of small declared domains that the explorer realises exhaustively (solver-enumerated), oracle = NumPy applied '
               'to arange(prod(shape)).reshape(shape).')
BOUNDS = dict(array2slice='array length <= 5 (thorough 6), entries unbounded integers',
              flat_array='index array length <= 3, entries unbounded integers, source extent 1..5',
              specs='rank <= 3, extent <= 4 per axis, slice start/stop in [-5,5] or None, step in +-{1,2,3} or None, ints in [-4,3], '
                    'index arrays of length 2 with entries in [-3,2]; quick tier uses the narrower domains [-3,3], steps +-{1,2}')
STUBS = ['module-global int in openmdao.utils.indexer -> pass-through for symbolic integers (array2slice only)',
         'object index arrays report dtype.kind "i" at the Python level (array2slice/ArrayIndexer refuse non-integer arrays)']
ASSUMPTIONS = ['integers are mathematical integers']
OUTSIDE = ['distributed shapes (dist_shape)', 'index arrays of rank > 1 inside tuples', 'sub-claim (c) is solver-driven bounded enumeration, not a symbolic proof: slice.indices / np.arange / fancy indexing are C code that needs concrete integers']


def harnesses(tier, seed):
    q = tier == 'quick'
    jobs = []
    for n in range(0, 6 if q else 7):
        jobs.append(dict(fn='h_array2slice', params=dict(n=n), max_paths=100000, wall_s=600 if q else 2400))
    for L in (1, 2, 3, 5):
        jobs.append(dict(fn='h_int_flat', params=dict(L=L)))
        for k in (1, 2) if q else (1, 2, 3):
            jobs.append(dict(fn='h_array_flat', params=dict(k=k, L=L), max_paths=100000))
    big = dict(max_paths=400000, wall_s=900 if q else 3000)

    def S(shp, forms, flat=False):
        # 'slice_open' realises which of start/stop/step are None (k in 0..6); split the first one over jobs so that
        # the large product spaces run in parallel
        if 'slice_open' in forms and len(forms) > 1:
            p = forms.index('slice_open')
            for k in range(7):
                jobs.append(dict(fn='h_spec', params=dict(shape=list(shp), forms=list(forms), flat_src=flat, tier=tier, fix={f'k{p}': k}), **big))
        else:
            jobs.append(dict(fn='h_spec', params=dict(shape=list(shp), forms=list(forms), flat_src=flat, tier=tier), **big))
    for shp in ([(1,), (3,)] if q else [(1,), (3,), (4,)]):
        for form in ('slice', 'slice_open', 'int', 'arr', 'ellipsis'):
            S(shp, [form])
    f2 = [['slice', 'int'], ['int', 'slice_open'], ['arr', 'arr'], ['int', 'int'], ['ellipsis', 'int'], ['int', 'ellipsis'], ['slice'], ['int'], ['arr'],
          ['ellipsis', 'slice']]
    if not q:
        f2 += [['slice_open', 'slice'], ['arr', 'slice_open'], ['slice_open', 'arr']]
    for shp in ([(2, 3)] if q else [(2, 3), (3, 1), (4, 2), (1, 4)]):
        for forms in f2:
            S(shp, forms)
        for form in ('slice', 'int', 'arr'):
            S(shp, [form], True)
    f3 = [['int', 'ellipsis', 'int'], ['ellipsis', 'int'], ['int', 'ellipsis']]
    if not q:
        f3 += [['int', 'slice_open', 'int'], ['slice_open', 'arr', 'int'], ['slice_open', 'slice_open', 'slice_neg'], ['arr', 'int', 'arr']]
    for shp in ([(2, 2, 3)] if q else [(2, 2, 3), (3, 1, 2)]):
        for forms in f3:
            S(shp, forms)
    return jobs


# ------------------------------------------------------------------ symbolic-integer index arrays
class _FakeDT:
    kind = 'i'
    type = int
    name = 'int64'

    def __eq__(self, o):
        return False

    def __ne__(self, o):
        return True
    __hash__ = object.__hash__


def _int_array(ctx, vals):
    """1-D integer index array; in sym mode an object array of symbolic ints that reports an integer dtype kind"""
    if not ctx.sym:
        return np.array([int(v) for v in vals], dtype=int)
    from symx.npstub import OA

    class IA(OA):
        @property
        def dtype(self):
            return _FakeDT()
    a = np.empty(len(vals), dtype=object)
    for i, v in enumerate(vals):
        a[i] = v
    return a.view(IA)


def _install(ctx):
    if ctx.sym:
        from symx import stubs
        stubs.install_int(IX)


def _uninstall():
    import builtins
    IX.int = builtins.int


def h_array2slice(ctx, n):
    _install(ctx)
    try:
        vals = [ctx.integer(f'i{k}') for k in range(n)]
        arr = _int_array(ctx, vals)
        slc = array2slice(arr)
    finally:
        _uninstall()
    ctx.observe('is_slice', slc is not None)
    if slc is None:
        ctx.check('declined', True)
        return
    a, b, s = slc.start, slc.stop, slc.step
    if s is None:
        s = 1
    # Python slice semantics for a source of ANY length L that admits the array (every entry in [0, L) - the
    # function declines negative entries): start=a>=0 is a valid position, so the slice selects a, a+s, a+2s, ...
    # strictly before `stop` (s>0) / strictly after `stop` (s<0); a negative stop would mean "from the end".
    ctx.check('step_nonzero', s != 0)
    ctx.check('start_nonneg', a >= 0)
    ctx.check('stop_nonneg', b >= 0)
    for k in range(n):
        ctx.check(f'elem[{k}]', vals[k] == a + k * s)
        ctx.check(f'elem_nonneg[{k}]', vals[k] >= 0)
    if n == 0:
        ctx.check('empty', (a == b) if ctx.sym else a == b)
        return
    if bool(s > 0):
        ctx.check('count_lo', a + (n - 1) * s < b)
        ctx.check('count_hi', a + n * s >= b)
        # stop may exceed the source length only by clipping: stop <= last+1 <= L is implied by last < L
        ctx.check('stop_tight', b <= vals[n - 1] + 1)
    else:
        ctx.check('count_lo', a + (n - 1) * s > b)
        ctx.check('count_hi', a + n * s <= b)


def h_int_flat(ctx, L):
    i = ctx.integer('i')

    def build():
        if ctx.sym:      # the factory dispatches on isinstance(idx, int); a symbolic integer goes straight to the class it selects
            ix = IX.IntIndexer(i, flat_src=True)
            ix.set_src_shape((L,))
            return ix
        return indexer(i, src_shape=(L,), flat_src=True)
    e = ctx.raises(IndexError, build)
    inb = bool((i >= -L) & (i < L)) if ctx.sym else (-L <= i < L)
    ctx.check('indexerror_iff_out_of_bounds', (e is not None) == (not inb))
    if e is None:
        ix = ctx.last
        want = i % L
        sh = ix.shaped_instance()
        ctx.check('shaped_value', sh() == want)
        arr = ix.shaped_array()
        ctx.check('shaped_array', arr.shape == (1,) and bool(arr[0] == want))
        ctx.check('flat', bool(sh.flat()[0] == want))
        ctx.check('apply_offset', sh.apply_offset(7) == want + 7)
        ctx.check('indexed_src_shape', tuple(ix.indexed_src_shape) in ((), (1,)))


def h_array_flat(ctx, k, L):
    vals = [ctx.integer(f'i{j}') for j in range(k)]
    arr = _int_array(ctx, vals)
    e = ctx.raises(IndexError, indexer, arr, src_shape=(L,), flat_src=True)
    inb = all(bool((v >= -L) & (v < L)) if ctx.sym else (-L <= v < L) for v in vals)
    ctx.check('indexerror_iff_out_of_bounds', (e is not None) == (not inb))
    if e is None:
        ix = ctx.last
        pos = ix.shaped_array()
        ctx.check('shape', pos.shape == (k,))
        ctx.check('indexed_src_shape', tuple(ix.indexed_src_shape) == (k,))
        fl = ix.shaped_instance().flat()
        for j in range(k):
            ctx.check(f'position[{j}]', pos[j] == vals[j] % L)
            ctx.check(f'flat[{j}]', fl[j] == vals[j] % L)
        # the unshaped index array is returned as given
        raw = ix.as_array()
        for j in range(k):
            ctx.check(f'raw[{j}]', raw[j] == vals[j])


# ------------------------------------------------------------------ bounded realisation against NumPy
def _dom(tier):
    if tier == 'quick':
        return dict(ss=(-3, 3), step=(-2, 2), iv=(-4, 3), av=(-3, 2))
    return dict(ss=(-5, 5), step=(-3, 3), iv=(-4, 3), av=(-3, 2))


def h_spec(ctx, shape, forms, flat_src, tier, fix=None):
    shape = tuple(shape)
    d = _dom(tier)
    parts = []
    fix = fix or {}
    for p, form in enumerate(forms):
        if form == 'slice':
            a = ctx.integer(f'a{p}', *d['ss'])
            b = ctx.integer(f'b{p}', *d['ss'])
            s = ctx.integer(f's{p}', *d['step'])
            ctx.assume(s != 0)
            parts.append(slice(int(a), int(b), int(s)))
        elif form == 'slice_neg':
            s = ctx.integer(f's{p}', -2, -1)
            parts.append(slice(None, None, int(s)))
        elif form == 'slice_open':
            # which of start/stop/step are None is realised too: k in 0..7
            kk = ctx.integer(f'k{p}', 0, 6)
            if f'k{p}' in fix:
                ctx.assume(kk == fix[f'k{p}'])
            k = int(kk)
            a = int(ctx.integer(f'a{p}', *d['ss'])) if k & 1 else None
            b = int(ctx.integer(f'b{p}', *d['ss'])) if k & 2 else None
            s = None
            if k & 4:
                s = ctx.integer(f's{p}', *d['step'])
                ctx.assume(s != 0)
                s = int(s)
            parts.append(slice(a, b, s))
        elif form == 'int':
            parts.append(int(ctx.integer(f'i{p}', *d['iv'])))
        elif form == 'arr':
            parts.append([int(ctx.integer(f'v{p}_0', *d['av'])), int(ctx.integer(f'v{p}_1', *d['av']))])
        elif form == 'ellipsis':
            parts.append(...)
    spec = parts[0] if len(parts) == 1 else tuple(parts)
    size = int(np.prod(shape))
    src = np.arange(size).reshape(shape)
    osrc = src.ravel() if flat_src else src
    try:
        want = osrc[tuple(np.asarray(x) if isinstance(x, list) else x for x in spec) if isinstance(spec, tuple) else
                    (np.asarray(spec) if isinstance(spec, list) else spec)]
        oracle_err = None
    except IndexError as err:
        want, oracle_err = None, err
    e = ctx.raises((IndexError, ValueError), lambda: _build(spec, shape, flat_src))
    if oracle_err is not None:
        # OpenMDAO must not accept what NumPy rejects (at construction/resolution, or at the latest when applied)
        if e is None:
            e = ctx.raises(IndexError, ctx.last.indexed_val, osrc)
        ctx.check('rejects_what_numpy_rejects', e is not None, spec=repr(spec))
        return
    if e is not None:
        # NumPy accepts, OpenMDAO refuses: only the documented stricter rule is allowed ("a slice with start or stop
        # outside of the source range is allowed in numpy ... in OpenMDAO that behavior would probably be unintended,
        # so for now make it an error")
        ctx.check('rejects_only_out_of_range_slices', _has_out_of_range_slice(spec, osrc.shape), spec=repr(spec), err=repr(e))
        return
    ix = ctx.last
    want = np.asarray(want)
    # A bare int / 1-D index array into a NON-flat multidimensional source is kept by OpenMDAO as a first-axis index
    # (the repository's own test_indexer.py::test_int_nonflat pins shaped_array() == [1] for indexer[1] on a 3x3
    # source), so for that one form the flat positions are derived the way conn_graph.get_src_index_array derives them
    # for index chains: by applying the indexer to arange(size).reshape(shape).
    first_axis_form = (not flat_src) and len(shape) > 1 and not isinstance(spec, (tuple, slice)) and spec is not ...
    if first_axis_form:
        e2 = ctx.raises(IndexError, ix.indexed_val, osrc)
        ctx.check('positions', e2 is None and np.array_equal(np.asarray(ctx.last).ravel(), want.ravel()), spec=repr(spec))
        ctx.check('result_shape', tuple(ix.indexed_src_shape) == tuple(want.shape), spec=repr(spec), got=repr(ix.indexed_src_shape), want=repr(want.shape))
        ctx.check('result_size', ix.indexed_src_size == want.size, spec=repr(spec))
        ctx.observe('npos', int(want.size))
        return
    pos = ix.shaped_array(flat=True)
    ctx.check('positions', np.array_equal(np.asarray(pos).ravel(), want.ravel()), spec=repr(spec), got=repr(np.asarray(pos).ravel().tolist()), want=repr(want.ravel().tolist()))
    ctx.check('result_shape', tuple(ix.indexed_src_shape) == tuple(want.shape), spec=repr(spec), got=repr(ix.indexed_src_shape), want=repr(want.shape))
    ctx.check('result_size', ix.indexed_src_size == want.size, spec=repr(spec))
    if flat_src or len(shape) == 1:
        # flat() is the index (array or slice) into the FLAT source; it is only used for flat sources
        ctx.check('flat_positions', np.array_equal(np.arange(size)[ix.shaped_instance().flat()].ravel(), want.ravel()), spec=repr(spec))
    ctx.check('indexed_val', np.array_equal(np.asarray(ix.indexed_val(osrc)).ravel(), want.ravel()), spec=repr(spec))
    # writing through the indexer hits exactly those positions
    tgt = np.zeros(osrc.shape, dtype=int)
    ix.indexed_val_set(tgt, 1)
    ref = np.zeros(osrc.shape, dtype=int)
    ref.ravel()[want.ravel()] = 1
    ctx.check('indexed_val_set', np.array_equal(tgt, ref), spec=repr(spec))
    # conversion of the resolved flat index array to a slice never changes the selected positions
    fl = np.asarray(ix.shaped_array(flat=True)).ravel()
    slc = array2slice(fl)
    if slc is not None:
        ctx.check('array2slice_same_positions', np.array_equal(np.arange(size)[slc], fl), spec=repr(spec), slc=repr(slc))
    ix2 = indexer(fl, src_shape=(size,), flat_src=True, try_slice=True)
    ctx.check('try_slice_same_positions', np.array_equal(np.asarray(ix2.shaped_array()).ravel(), fl), spec=repr(spec))
    ctx.observe('npos', int(want.size))


def _has_out_of_range_slice(spec, shape):
    parts = list(spec) if isinstance(spec, tuple) else [spec]
    if any(p is ... for p in parts):
        k = [i for i, p in enumerate(parts) if p is ...][0]
        parts = parts[:k] + [slice(None)] * (len(shape) - len(parts) + 1) + parts[k + 1:]
    for p, n in zip(parts, shape):
        if isinstance(p, slice):
            for v in (p.start, p.stop):
                if v is not None and (v > n or v < -n):
                    return True
            if p.start is not None and p.start == n:
                return True
    return False


def _build(spec, shape, flat_src):
    if isinstance(spec, list):
        spec = np.asarray(spec)
    elif isinstance(spec, tuple):
        spec = tuple(np.asarray(x) if isinstance(x, list) else x for x in spec)
    ix = indexer(spec, src_shape=shape, flat_src=flat_src)
    ix.shaped_array()       # resolution / bounds checks happen lazily in some classes
    return ix
