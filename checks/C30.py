"""C30 Complex-step-safe helpers agree with NumPy and differentiate exactly (real-input and arctan2 parts)."""
import numpy as np
import openmdao.utils.cs_safe as CS

LEVEL = 'model_checking'
EXPLANATION = ('openmdao.utils.cs_safe.abs (scalar and array), .norm (with and without axis) and .arctan2 executed on symbolic reals: the '
               'results must be |x| (x for x >= 0, -x otherwise), the non-negative root of sum(x^2), and arctan2(y, x); arctan2 with a '
               'symbolic complex perturbation (y + i b, x + i d) must have real part arctan2(y, x) and imaginary part equal to the '
               'directional derivative b*d/dy + d*d/dx of arctan2 (chain rule on the arctan2 atom), i.e. step times the analytic derivative.')
BOUNDS = dict(array_size='<= 3 (2x2 for axis variants)')
STUBS = ['sqrt and arctan2 as atoms with their differentiation rules (sqrt: y>=0 & y^2==x)', 'symbolic complex numbers as pairs of reals']
ASSUMPTIONS = ['reals; (x, y) != (0, 0) for arctan2']
OUTSIDE = ['cs_safe.abs on complex arrays (branches on NumPy major version and on sign() of complex numbers, evaluated in C)', 'cs_safe.norm on complex input (complex sqrt)',
           'openmdao.jax_funcs smooth helpers (jax tracing)', 'so the complex-perturbation claim is decided for arctan2 only']


def harnesses(tier, seed):
    jobs = [dict(fn='h_abs', params=dict(n=n)) for n in (0, 1, 2, 3)]
    jobs += [dict(fn='h_norm', params=dict(shape=s, axis=a)) for s, a in (([1], None), ([3], None), ([2, 2], None), ([2, 2], 0), ([2, 2], 1))]
    jobs += [dict(fn='h_arctan2', params=dict(n=n, cplx=c)) for n in (0, 2) for c in (False, True)]
    return jobs


def _install(ctx):
    if ctx.sym:
        CS.np = ctx.np


def _absref(ctx, v):
    return v if bool(v >= 0) else -v


def h_abs(ctx, n):
    _install(ctx)
    if n == 0:
        x = ctx.real('x', -5, 5)
        ctx.eq('abs_scalar', CS.abs(x), _absref(ctx, x))
        ctx.observe('a', CS.abs(x))
        return
    x = ctx.reals('x', n, -5, 5)
    got = CS.abs(x)
    for i in range(n):
        ctx.eq(f'abs[{i}]', got[i], _absref(ctx, x[i]))
    ctx.eq('input_untouched', x, x.copy())
    ctx.observe('a', got)


def h_norm(ctx, shape, axis):
    _install(ctx)
    x = ctx.reals('x', tuple(shape), -5, 5)
    got = CS.norm(x, axis=axis)
    sq = (x * x).sum(axis=axis)
    got = np.atleast_1d(got)
    sq = np.atleast_1d(sq)
    for i in range(got.size):
        if ctx.sym:
            ctx.check(f'nonneg[{i}]', got[i] >= 0)
            ctx.eq(f'square[{i}]', got[i] * got[i], sq[i])
        else:
            ctx.eq(f'value[{i}]', got[i], float(np.sqrt(sq[i])), 1e-9)
    ctx.observe('n', got)


def h_arctan2(ctx, n, cplx):
    _install(ctx)
    shp = (n,) if n else ()
    y = ctx.reals('y', n, -5, 5) if n else ctx.real('y', -5, 5)
    x = ctx.reals('x', n, -5, 5) if n else ctx.real('x', -5, 5)
    ya, xa = np.atleast_1d(y), np.atleast_1d(x)
    for i in range(ya.size):
        ctx.assume((xa[i] * xa[i] + ya[i] * ya[i]) > 0)
    if not cplx:
        got = np.atleast_1d(CS.arctan2(y, x))
        for i in range(ya.size):
            ref = ctx.np.arctan2(ya[i], xa[i]) if ctx.sym else np.arctan2(ya[i], xa[i])
            ctx.eq(f'value[{i}]', got[i], ref)
        ctx.observe('v', got)
        return
    b = ctx.reals('b', max(n, 1), -5, 5)
    d = ctx.reals('d', max(n, 1), -5, 5)
    if ctx.sym:
        from symx.values import SC, SR
        from symx.ctx import sym_id
        yc = np.empty(ya.shape, dtype=object)
        xc = np.empty(ya.shape, dtype=object)
        for i in range(ya.size):
            yc[i] = SC(ya[i], b[i])
            xc[i] = SC(xa[i], d[i])
        yc, xc = yc.view(type(b)), xc.view(type(b))
        got = np.atleast_1d(CS.arctan2(yc if n else yc[0], xc if n else xc[0]))
        for i in range(ya.size):
            z = SC.lift(got[i])
            t = SR.lift(ya[i]).arctan2(xa[i])
            ctx.eq(f're[{i}]', z.re, t)
            ctx.eq(f'im[{i}]', z.im, b[i] * t.diff(sym_id(ya[i])) + d[i] * t.diff(sym_id(xa[i])))
        ctx.observe('re', [SC.lift(g).re for g in got])
    else:
        h = 1e-30
        yc = np.asarray(ya, dtype=complex) + 1j * h * np.asarray(b[:ya.size])
        xc = np.asarray(xa, dtype=complex) + 1j * h * np.asarray(d[:ya.size])
        got = np.atleast_1d(CS.arctan2(yc if n else yc[0], xc if n else xc[0]))
        for i in range(ya.size):
            den = xa[i] ** 2 + ya[i] ** 2
            ctx.eq(f're[{i}]', got[i].real, float(np.arctan2(ya[i], xa[i])))
            ctx.eq(f'im[{i}]', got[i].imag / h, (b[i] * xa[i] - d[i] * ya[i]) / den, 1e-9)
        ctx.observe('re', [float(g.real) for g in got])
