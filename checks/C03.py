"""C03 Simultaneous-derivative coloring reconstructs every Jacobian entry."""
import itertools
import random

import numpy as np
import openmdao.api as om
import openmdao.utils.coloring as CM

from checks.C12 import h_colored_subset      # noqa: F401  (harness reused)
from checks.C14 import h_expr                # noqa: F401  (harness reused)

LEVEL = 'model_checking'
EXPLANATION = ('For each sparsity pattern the real coloring algorithms (_compute_coloring fwd / rev / auto, MNCO_bidir direct and substitution) '
               'are run on the concrete boolean pattern; then, with one symbolic real per nonzero ("every matrix with that pattern"), the '
               'compressed products are formed from the symbolic matrix and the coloring\'s own tangent vectors, and the framework\'s '
               'reconstruction (Coloring.color_nonzero_iter scatter, _expand_jac, _apply_subtractions) must give back exactly the '
               'symbol at every nonzero and 0 elsewhere.  Structural side conditions per pattern: every column (row) is in exactly one '
               'color of its direction, and total_solves never exceeds the uncolored count.  Whole-framework form: a Problem with a linear '
               'component y = A x (A symbolic on the pattern), a fixed total coloring of each kind and per-element driver scalers; colored '
               'totals from Driver._compute_totals must equal the uncolored ones entry by entry.')
BOUNDS = dict(patterns='quick: all 2x2, 2x3, 3x2 and a seeded sample of 160 of the 512 3x3 patterns + 12 random patterns up to 6x6; thorough: all patterns up to 3x3, sampled 3x4/4x4, 60 random up to 8x8',
              matrix_values='one unbounded symbolic real per nonzero', framework_form='arrow/banded/random patterns 4x4..6x6 x {fwd, rev, bidir direct, bidir substitution} x scalers')
STUBS = ['none at kernel level (index bookkeeping on symbolic entries); Problem form: float pass-through']
ASSUMPTIONS = ['reals; the solver quantifies over matrix values, patterns are enumerated']
OUTSIDE = ['sparsity detection from noisy numerical jacobians (_tol_sweep)', 'partial (component-level) coloring of approximations (C12 covers colored == uncolored there)']


def _all_patterns(m, n):
    for bits in itertools.product((0, 1), repeat=m * n):
        yield [list(bits[r * n:(r + 1) * n]) for r in range(m)]


def _named_patterns():
    arrow = np.eye(6, dtype=int)
    arrow[0, :] = 1
    arrow[:, 0] = 1
    arrow2 = np.eye(5, dtype=int)
    arrow2[-1, :] = 1
    arrow2[:, -1] = 1
    band = (np.abs(np.subtract.outer(np.arange(6), np.arange(6))) <= 1).astype(int)
    return {'arrow6': arrow.tolist(), 'arrow5_last': arrow2.tolist(), 'band6': band.tolist()}


def harnesses(tier, seed):
    q = tier == 'quick'
    rng = random.Random(seed)
    pats = []
    for m, n in ((1, 1), (1, 3), (2, 2), (2, 3), (3, 2)):
        pats += list(_all_patterns(m, n))
    p33 = list(_all_patterns(3, 3))
    if q:
        rng.shuffle(p33)
        p33 = p33[:160]
    pats += p33
    if not q:
        for m, n in ((3, 4), (4, 4), (4, 3)):
            allp = list(itertools.islice(_all_patterns(m, n), 0, None))
            rng.shuffle(allp)
            pats += allp[:400]
    for _ in range(12 if q else 60):
        m, n = rng.randint(3, 6 if q else 8), rng.randint(3, 6 if q else 8)
        dens = rng.choice([0.2, 0.35, 0.5])
        pats.append([[1 if rng.random() < dens else 0 for _ in range(n)] for _ in range(m)])
    pats += list(_named_patterns().values())
    jobs = []
    chunk = 40
    for i in range(0, len(pats), chunk):
        jobs.append(dict(fn='h_kernel', params=dict(patterns=pats[i:i + chunk]), wall_s=600 if q else 2400))
    named = _named_patterns()
    for name in named:
        for kind in ('fwd', 'rev', 'bidir_direct', 'bidir_subst'):
            for scaling in ((True,) if q else (True, False)):
                jobs.append(dict(fn='h_problem', params=dict(pattern=named[name], kind=kind, scaled=scaling)))
    # several components sharing the design variables, responses in blocks: while one color is solved the components that do not
    # contribute to it are skipped as irrelevant
    for kind in ('fwd', 'rev', 'auto', 'bidir_direct', 'bidir_subst'):
        jobs.append(dict(fn='h_problem_multi', params=dict(kind=kind, mode=kind if kind in ('fwd', 'rev') else 'auto', N=4 if kind in ('fwd', 'rev') else 8)))
    # partial (component level) coloring of approximated partials: colored == uncolored (harnesses shared with C12 / C14)
    for after in (True, False):
        jobs.append(dict(fn='h_colored_subset', params=dict(other_declared_after=after)))
    jobs.append(dict(fn='h_expr', params=dict(expr='a**3 - b**2', names=['a', 'b'], size=2, opts='plain', detect='zeros')))
    jobs.append(dict(fn='h_expr', params=dict(expr='a**2 + 3.0*a*b', names=['a', 'b'], size=3, opts='coloring')))
    return jobs


def _colorings(P):
    # the coloring algorithms work on the concrete boolean pattern: they run on real NumPy/SciPy even in symbolic mode
    saved = CM.np
    CM.np = np
    try:
        return _colorings_concrete(P)
    finally:
        CM.np = saved


def _colorings_concrete(P):
    J = np.array(P, dtype=bool)
    out = {}
    if not J.any():
        return out
    out['fwd'] = CM._compute_coloring(J, 'fwd')
    out['rev'] = CM._compute_coloring(J, 'rev')
    out['auto'] = CM._compute_coloring(J, 'auto')
    out['auto_subst'] = CM._compute_coloring(J, 'auto', direct=False)
    from scipy.sparse import coo_matrix
    r, c = np.nonzero(J)
    for direct in (True, False):
        out['bidir_direct' if direct else 'bidir_subst'] = CM.MNCO_bidir(coo_matrix((np.ones(r.size, dtype=bool), (r, c)), shape=J.shape), direct=direct)
    return out


def _reconstruct(ctx, col, A):
    """what the framework does with a coloring: one product per color, scattered by the coloring's own index lists"""
    m, n = A.shape
    J = ctx.zeros((m, n)) if ctx.sym else np.zeros((m, n))
    if col._fwd is not None:
        for nzs, nzparts in col.color_nonzero_iter('fwd'):
            t = np.zeros(n)
            t[nzs] = 1
            prod = A.dot(t)                       # J v for the tangent vector of this color
            for c, rows in zip(nzs, nzparts):
                J[rows, c] = prod[rows]
    if col._rev is not None:
        for nzs, nzparts in col.color_nonzero_iter('rev'):
            t = np.zeros(m)
            t[nzs] = 1
            prod = t.dot(A)                       # w^T J for the cotangent vector of this color
            for r, cols in zip(nzs, nzparts):
                J[r, cols] = prod[cols]
    if col._subtractions:          # the guard _TotalJacInfo.compute_totals uses
        col._apply_subtractions(J)
    return J


def h_kernel(ctx, patterns):
    npat = 0
    for k, P in enumerate(patterns):
        Pb = np.array(P, dtype=bool)
        m, n = Pb.shape
        cols = _colorings(P)
        if not cols:
            continue
        npat += 1
        A = ctx.zeros((m, n)) if ctx.sym else np.zeros((m, n))
        for r in range(m):
            for c in range(n):
                if Pb[r, c]:
                    A[r, c] = ctx.real(f'a{r}_{c}')
        tag = ''.join(''.join(map(str, row)) + '/' for row in P)
        for kind, col in cols.items():
            J = _reconstruct(ctx, col, A)
            ctx.eq(f'[{tag}]{kind}:reconstruction', J, A)
            # structure
            nf = col.total_solves(rev=False)
            nr = col.total_solves(fwd=False)
            if kind == 'fwd':
                groups = [list(g) for g in col._fwd[0]]
                flat = sorted(c for g in groups for c in g)
                ctx.check(f'[{tag}]fwd:each_nonempty_column_in_exactly_one_color', flat == [c for c in range(n) if Pb[:, c].any()], groups=repr(groups))
                ctx.check(f'[{tag}]fwd:no_more_solves_than_columns', nf <= n)
            elif kind == 'rev':
                groups = [list(g) for g in col._rev[0]]
                flat = sorted(c for g in groups for c in g)
                ctx.check(f'[{tag}]rev:each_nonempty_row_in_exactly_one_color', flat == [r for r in range(m) if Pb[r, :].any()], groups=repr(groups))
                ctx.check(f'[{tag}]rev:no_more_solves_than_rows', nr <= m)
            else:
                # 'auto' (what users get: _compute_coloring compares the bidirectional result with both one-directional ones and
                # keeps the cheapest) never needs more solves than the cheaper uncolored direction.  The raw MNCO_bidir results
                # (bidir_direct / bidir_subst) are internal intermediates of that comparison and may need more (e.g. 5 solves for
                # 110/011/001/110): only their reconstruction is an obligation.
                if kind.startswith('auto'):
                    ctx.check(f'[{tag}]{kind}:solves<=min_dimension', nf + nr <= min(m, n), solves=nf + nr)
                for direction, cnt in (('fwd', n), ('rev', m)):
                    part = col._fwd if direction == 'fwd' else col._rev
                    if part is not None:
                        flat = [c for g in part[0] for c in g]
                        ctx.check(f'[{tag}]{kind}:{direction}_index_in_at_most_one_color', len(flat) == len(set(flat)))
            # single-direction colorings: _expand_jac on the compressed jacobian
            if kind in ('fwd', 'rev'):
                direction = kind
                T = col.tangent_matrix(direction)
                comp = A.dot(np.asarray(T).T) if direction == 'fwd' else np.asarray(T).dot(A)
                if ctx.sym:
                    from symx import sparse
                    saved = CM.csc_matrix
                    CM.csc_matrix = sparse.csc_matrix
                    try:
                        E = col._expand_jac(comp, direction).toarray()
                    finally:
                        CM.csc_matrix = saved
                else:
                    E = col._expand_jac(comp, direction).toarray()
                ctx.eq(f'[{tag}]{kind}:_expand_jac', E, A)
    ctx.observe('npat', npat)


class _Lin(om.ExplicitComponent):
    def __init__(self, A, P, xp):
        super().__init__()
        self._a = (A, P, xp)

    def setup(self):
        A, P, xp = self._a
        m, n = A.shape
        self.add_input('x', val=xp.ones(n))
        self.add_output('y', val=xp.ones(m))
        r, c = np.nonzero(P)
        self.declare_partials('y', 'x', rows=r, cols=c)

    def compute(self, i, o):
        o['y'] = self._a[0].dot(i['x'])

    def compute_partials(self, i, J):
        A, P, xp = self._a
        r, c = np.nonzero(P)
        J['y', 'x'] = A[r, c]


def h_problem(ctx, pattern, kind, scaled):
    """colored totals through the real driver / _TotalJacInfo == uncolored totals, with per-element driver scalers"""
    if ctx.sym:
        from symx import stubs
        import openmdao.utils.general_utils as GU
        import openmdao.core.system as SY
        stubs.install_float(GU, SY)
    P = np.array(pattern, dtype=bool)
    m, n = P.shape
    A = ctx.zeros((m, n)) if ctx.sym else np.zeros((m, n))
    for r in range(m):
        for c in range(n):
            if P[r, c]:
                A[r, c] = ctx.real(f'a{r}_{c}', -5, 5)
    x = ctx.reals('x', n, -5, 5)
    col = _colorings(pattern)[kind]
    col._row_vars, col._row_var_sizes = ['c.y'], [m]
    col._col_vars, col._col_var_sizes = ['c.x'], [n]
    res = {}
    for colored in (False, True):
        p = om.Problem()
        p.model.add_subsystem('c', _Lin(A, P, ctx.np))
        kw_dv, kw_con = {}, {}
        if scaled:
            kw_dv = dict(scaler=np.array([2.0 ** ((j % 3) - 1) for j in range(n)]))
            kw_con = dict(scaler=np.array([(-1.0) ** i * 2.0 ** (i % 3) for i in range(m)]), adder=1.0)
        p.model.add_design_var('c.x', **kw_dv)
        p.model.add_constraint('c.y', upper=0.0, **kw_con)
        p.driver = om.ScipyOptimizeDriver()
        if colored:
            p.driver.use_fixed_coloring(col)
        mode = 'rev' if kind == 'rev' else 'fwd'
        p.setup(mode='auto' if kind.startswith('bidir') else mode)
        p.set_val('c.x', x)
        p.final_setup()
        p.run_model()
        res[colored] = np.asarray(p.driver._compute_totals(return_format='array', driver_scaling=scaled))
        if colored:
            ctx.check('coloring_active', p.driver._coloring_info.coloring is not None or p.driver._coloring_info.static is not None)
    ctx.eq('colored==uncolored', res[True], res[False])
    want = A.copy()
    if scaled:
        for i in range(m):
            for j in range(n):
                want[i, j] = A[i, j] * ((-1.0) ** i * 2.0 ** (i % 3)) / (2.0 ** ((j % 3) - 1))
    ctx.eq('uncolored_is_scaled_A', res[False], want)
    ctx.observe('J', res[False])


class _Block(om.ExplicitComponent):
    """rows [r0, r1) of y = A (x, a): its own output, inputs x (all columns but the last) and the scalar a (last column)"""

    def __init__(self, A, P, xp):
        super().__init__()
        self._a = (A, P, xp)

    def setup(self):
        A, P, xp = self._a
        m, n = A.shape
        self.add_input('x', val=xp.ones(n - 1))
        self.add_input('a', val=xp.ones(1))
        self.add_output('y', val=xp.ones(m))
        r, c = np.nonzero(P[:, :-1])
        if r.size:
            self.declare_partials('y', 'x', rows=r, cols=c)
        if P[:, -1].any():
            self.declare_partials('y', 'a')

    def compute(self, i, o):
        A = self._a[0]
        o['y'] = A[:, :-1].dot(i['x']) + A[:, -1] * i['a'][0]

    def compute_partials(self, i, J):
        A, P, xp = self._a
        r, c = np.nonzero(P[:, :-1])
        if r.size:
            J['y', 'x'] = A[r, c]
        if P[:, -1].any():
            J['y', 'a'] = A[:, -1].reshape(-1, 1)


def _multi_blocks(N):
    """three response blocks over the design variables x (N) and a (1): two structurally orthogonal 'halves' rows, two 'parity'
    rows, and a diagonal block with the dense column of a.  For N >= 8 the bidirectional coloring (2 reverse colors of two rows
    each + 2 forward colors) beats both one-directional ones."""
    half = N // 2
    h = np.zeros((2, N + 1), dtype=int)
    h[0, :half] = 1
    h[1, half:N] = 1
    p = np.zeros((2, N + 1), dtype=int)
    p[0, 0:N:2] = 1
    p[1, 1:N:2] = 1
    d = np.zeros((N, N + 1), dtype=int)
    d[np.arange(N), np.arange(N)] = 1
    d[:, N] = 1
    return [h, p, d]


def h_problem_multi(ctx, kind, mode, N=8):
    """colored == uncolored totals on a model of three components fed by the same design variables (an arrowhead-like total
    jacobian), relevance enabled as in every default run; setup mode auto / fwd / rev"""
    if ctx.sym:
        from symx import stubs
        import openmdao.utils.general_utils as GU
        import openmdao.core.system as SY
        stubs.install_float(GU, SY)
    blocks = [np.array(b, dtype=bool) for b in _multi_blocks(N)]
    full = np.vstack(blocks)
    cols = _colorings(full.astype(int).tolist())
    if kind not in cols:
        ctx.check('coloring_exists', False)
        return
    col = cols[kind]
    names = ['h', 'p', 'd']
    col._row_vars, col._row_var_sizes = ['obj', 'h1', 'p.y', 'd.y'], [1, 1, 2, N]
    col._col_vars, col._col_var_sizes = ['x', 'a'], [N, 1]
    As = []
    for k, Pb in enumerate(blocks):
        A = ctx.zeros(Pb.shape) if ctx.sym else np.zeros(Pb.shape)
        for r in range(Pb.shape[0]):
            for c in range(Pb.shape[1]):
                if Pb[r, c]:
                    A[r, c] = ctx.real(f'a{k}_{r}_{c}', -5, 5)
        As.append(A)
    x = ctx.reals('x', N, -5, 5)
    a = ctx.real('a', -5, 5)
    res = {}
    for colored in (False, True):
        p = om.Problem()
        for nm, A, Pb in zip(names, As, blocks):
            p.model.add_subsystem(nm, _Block(A, Pb, ctx.np), promotes_inputs=['x', 'a'])
        p.model.add_design_var('x')
        p.model.add_design_var('a')
        p.model.add_objective('h.y', index=0, alias='obj')
        p.model.add_constraint('h.y', indices=[1], upper=0.0, alias='h1')
        p.model.add_constraint('p.y', lower=0.0)
        p.model.add_constraint('d.y', lower=0.0)
        p.driver = om.ScipyOptimizeDriver()
        if colored:
            p.driver.use_fixed_coloring(col)
        p.setup(mode=mode)
        p.set_val('x', x)
        p.set_val('a', a)
        p.final_setup()
        p.run_model()
        res[colored] = np.asarray(p.driver._compute_totals(return_format='array', driver_scaling=False))
        # a second evaluation reuses the vectors left behind by the first one
        again = np.asarray(p.driver._compute_totals(return_format='array', driver_scaling=False))
        ctx.eq(f'second_evaluation_same[{colored}]', again, res[colored])
    ctx.eq('colored==uncolored', res[True], res[False])
    want = np.vstack([np.asarray(A) for A in As])
    ctx.eq('uncolored_is_A', res[False], want)
    ctx.observe('J', res[False])
