"""C15 Table interpolation is exact on nodes and reproduces its polynomial degree."""
import itertools

import numpy as np
from openmdao.components.interp_util.interp import InterpND
from openmdao.components.interp_util.outofbounds_error import OutOfBoundsError

LEVEL = 'model_checking'
EXPLANATION = ('InterpND (general and fixed-dimension table methods) executed on concrete exact grids with symbolic query '
               'points and symbolic table values: at every node the table entry is returned; for tables sampled from a '
               'polynomial with symbolic coefficients of the class the method is exact for, interp(x) == p(x) for every x '
               'in the grid range (one path per bracketed cell); fixed-dimension variants return the same term as the general '
               'method; with extrapolate=False an OutOfBoundsError is raised for every point outside the grid and no error '
               'for any point inside.')
BOUNDS = dict(dimension='1-2 (3 for slinear/lagrange2 on 2x2x3.. grids in the thorough tier)', grid_points='3-6 per axis',
              grids='5 concrete non-uniform grids per axis incl. negative, zero-crossing and all-negative coordinates',
              methods='slinear, lagrange2, lagrange3, akima, cubic, 1D/2D/3D-slinear, 1D/2D/3D-lagrange2, 1D/2D/3D-lagrange3, 1D-akima')
STUBS = ['np proxy (object arrays of symbolic reals); searchsorted on symbolic keys by comparison forks']
ASSUMPTIONS = ['reals; grid coordinates are exact dyadic rationals', 'the documented boundary slack of 1e-14*|grid end| is allowed either way: points within 1e-9 outside the grid may or may not raise']
OUTSIDE = ['scipy_* methods (FITPACK)', 'bsplines (C16)', 'complex tables', 'IEEE round-off inside a cell']

GRIDS = {
    'pos': [0.5, 1.0, 2.5, 3.0, 4.5, 6.0],
    'cross': [-2.0, -0.5, 0.0, 1.5, 2.0, 3.5],
    'neg': [-6.0, -4.5, -3.0, -2.5, -1.0, -0.25],
    'neg0': [-5.0, -3.5, -2.0, -1.0, -0.5, 0.0],
    'wide': [-100.0, -1.0, 0.125, 0.25, 64.0, 1000.0],
}
GENERAL = ['slinear', 'lagrange2', 'lagrange3', 'akima', 'cubic']
FIXED = {1: ['1D-slinear', '1D-lagrange2', '1D-lagrange3', '1D-akima'], 2: ['2D-slinear', '2D-lagrange2', '2D-lagrange3'],
         3: ['3D-slinear', '3D-lagrange2', '3D-lagrange3']}
# per-axis degree the method reproduces exactly
DEGREE = {'slinear': 1, 'lagrange2': 2, 'lagrange3': 3, 'akima': 1, 'cubic': 1}
MINPTS = {'slinear': 2, 'lagrange2': 3, 'lagrange3': 4, 'akima': 5, 'cubic': 4}


def base(method):
    return method.split('-')[-1]


def harnesses(tier, seed):
    q = tier == 'quick'
    jobs = []
    gl = ['cross', 'neg'] if q else list(GRIDS)
    for g in gl:
        for m in GENERAL + FIXED[1]:
            n = 5 if base(m) == 'akima' else (4 if q else 5)
            if m == '1D-akima' and g == gl[0]:
                n = 4        # smallest grid the method accepts
            for part in ('nodes', 'reproduce') + (('variant',) if m != base(m) else ()):
                jobs.append(dict(fn='h_table', params=dict(method=m, grids=[g], npts=[n], part=part), max_paths=50000))
            jobs.append(dict(fn='h_bounds', params=dict(method=m, grids=[g], npts=[n])))
    for g1, g2 in ([('cross', 'neg0')] if q else [('cross', 'neg0'), ('pos', 'neg'), ('wide', 'cross')]):
        for m in GENERAL + FIXED[2]:
            if base(m) in ('akima', 'cubic') and q:
                continue
            n = 5 if base(m) == 'akima' else MINPTS[base(m)]
            for part in ('nodes', 'reproduce') + (('variant',) if m != base(m) else ()):
                jobs.append(dict(fn='h_table', params=dict(method=m, grids=[g1, g2], npts=[n, max(n - 1, MINPTS[base(m)])], part=part),
                                 wall_s=900 if q else 2400, max_paths=50000))
            jobs.append(dict(fn='h_bounds', params=dict(method=m, grids=[g1, g2], npts=[n, MINPTS[base(m)]])))
    if not q:
        for m in ['slinear', 'lagrange2', '3D-slinear', '3D-lagrange2', '3D-lagrange3', 'lagrange3']:
            n = MINPTS[base(m)]
            for part in ('nodes', 'reproduce') + (('variant',) if m != base(m) else ()):
                jobs.append(dict(fn='h_table', params=dict(method=m, grids=['cross', 'neg', 'pos'], npts=[n, n, n], part=part), wall_s=3000, max_paths=50000))
    for g in (['neg'] if q else ['neg', 'cross']):
        for m in FIXED[1] + (['2D-slinear'] if q else FIXED[2]):
            jobs.append(dict(fn='h_sequence', params=dict(method=m, grid=g)))
    return jobs


def _grid(ctx, names, npts):
    return [np.array(GRIDS[g][:n], dtype=float) for g, n in zip(names, npts)]


def _poly(ctx, deg, dim):
    """tensor-product polynomial of per-axis degree `deg` with symbolic coefficients; returns callable on coordinate lists"""
    idx = list(itertools.product(range(deg + 1), repeat=dim))
    coef = {e: ctx.real('k' + ''.join(map(str, e)), -5, 5) for e in idx}

    def p(xs):
        s = 0
        for e, c in coef.items():
            t = c
            for xk, ek in zip(xs, e):
                for _ in range(ek):
                    t = t * xk
            s = s + t
        return s
    return p


def _table_from(ctx, p, grid):
    shape = tuple(len(g) for g in grid)
    vals = ctx.zeros(shape) if ctx.sym else np.zeros(shape)
    for ix in np.ndindex(*shape):
        vals[ix] = p([ctx.const(float(grid[d][i])) for d, i in enumerate(ix)])
    return vals


def _interp(ctx, method, grid, vals, extrapolate=False):
    return InterpND(method=method, points=tuple(grid) if len(grid) > 1 else grid[0], values=vals, extrapolate=extrapolate)


def _eval(ctx, itp, xs):
    x = ctx.array(xs) if ctx.sym else np.array(xs, dtype=float)
    r = itp.interpolate(x) if len(xs) > 1 else itp.interpolate(x)
    return np.asarray(r).reshape(-1)[0]


def h_table(ctx, method, grids, npts, part):
    dim = len(grids)
    grid = _grid(ctx, grids, npts)
    b = base(method)
    shape = tuple(npts)
    if part == 'nodes':
        # (1) node exactness with free symbolic table entries
        free = ctx.reals('t', shape, -10, 10)
        itp = _interp(ctx, method, grid, free)
        nodes = list(np.ndindex(*shape))
        step = max(1, len(nodes) // 7)
        for ix in nodes[::step] + [nodes[-1]]:
            got = _eval(ctx, itp, [ctx.const(float(grid[d][i])) for d, i in enumerate(ix)])
            ctx.eq('node' + str(list(ix)), got, free[ix], 1e-12)
        ctx.observe('val', got)
    elif part == 'reproduce':
        # (2) reproduction of the method's exactness class, symbolic query anywhere inside the grid
        p = _poly(ctx, DEGREE[b], dim)
        vals = _table_from(ctx, p, grid)
        itp2 = _interp(ctx, method, grid, vals)
        xs = [ctx.real(f'x{d}', float(grid[d][0]), float(grid[d][-1])) for d in range(dim)]
        got = _eval(ctx, itp2, xs)
        ctx.eq('reproduces_degree_%d' % DEGREE[b], got, p(xs), 1e-9)
        ctx.observe('val', got)
    else:
        # (3) the fixed-dimension variant and the general method are the same interpolant (free table, same query)
        if b == 'akima':
            # the akima weights fork on the sign of every slope difference: with a free symbolic table the two
            # interpolants multiply those forks, so the table is a concrete pseudo-random one here (x stays symbolic)
            rng = np.random.default_rng(len(method) + sum(npts))
            free = ctx.consts(rng.integers(-9, 10, size=shape).tolist())
        else:
            free = ctx.reals('t', shape, -10, 10)
        xs = [ctx.real(f'x{d}', float(grid[d][0]), float(grid[d][-1])) for d in range(dim)]
        itp = _interp(ctx, method, grid, free)
        gen = _interp(ctx, b, grid, free)
        got = _eval(ctx, itp, xs)
        ctx.eq('fixed_equals_general', got, _eval(ctx, gen, xs), 1e-9)
        ctx.observe('val', got)


def h_bounds(ctx, method, grids, npts):
    """extrapolate=False: error exactly for points outside the grid"""
    dim = len(grids)
    grid = _grid(ctx, grids, npts)
    free = ctx.reals('t', tuple(npts), -10, 10)
    itp = _interp(ctx, method, grid, free, extrapolate=False)
    xs = []
    inside = True
    outside = False
    for d in range(dim):
        lo, hi = float(grid[d][0]), float(grid[d][-1])
        span = hi - lo
        x = ctx.real(f'x{d}', lo - span, hi + span)
        xs.append(x)
        inside = inside and bool((x >= lo) & (x <= hi))
        m = 1e-9 * (1 + abs(lo) + abs(hi))
        outside = outside or bool((x < lo - m) | (x > hi + m))
    e = None
    try:
        val = _eval(ctx, itp, xs)
    except OutOfBoundsError as err:
        e = err
    if inside:
        ctx.check('in_bounds_point_accepted', e is None, err=repr(e))
    elif outside:
        ctx.check('out_of_bounds_point_raises', e is not None)
    else:
        ctx.check('within_documented_slack', True)
    ctx.observe('raised', e is not None)


def h_sequence(ctx, method, grid):
    """an interpolant is a function of the query only: the result for x does not depend on earlier queries (cached
    bracket indices, vectorised vs single-point calls)"""
    g = [np.array(GRIDS[grid][:5], dtype=float)]
    dim = int(method[0]) if method[0].isdigit() else 1
    grid_l = g * dim
    # concrete pseudo-random table: only the queries are symbolic (the history, not the data, is the subject)
    rng = np.random.default_rng(7 + dim)
    free = ctx.consts(rng.integers(-9, 10, size=tuple([5] * dim)).tolist())
    lo, hi = float(g[0][0]), float(g[0][-1])
    fresh = _interp(ctx, method, grid_l, free, extrapolate=True)
    used = _interp(ctx, method, grid_l, free, extrapolate=True)
    if dim == 1:
        x_prev = [ctx.real('p0', lo - 2, hi + 2)]
    else:       # keep the path count down: the earlier query of a multi-dimensional table is a fixed point below the grid
        x_prev = [ctx.const(lo - 1)] * dim
    x = [ctx.real(f'x{d}', lo, hi) for d in range(dim)]
    _eval(ctx, used, x_prev)
    ctx.eq('after_single_query', _eval(ctx, used, x), _eval(ctx, fresh, x), 1e-9)
    # a vectorised call in between
    pts = ctx.array([[ctx.const(lo)] * dim, x_prev]) if ctx.sym else np.array([[lo] * dim, x_prev], dtype=float)
    used.interpolate(pts)
    ctx.eq('after_vectorised_query', _eval(ctx, used, x), _eval(ctx, fresh, x), 1e-9)
    ctx.observe('v', _eval(ctx, fresh, x))
