"""C31 Evaluations are deterministic and derivative queries are read-only."""
import itertools

import numpy as np
import openmdao.api as om

from progfam.library import LIBRARY, IMPLICIT
from checks.C24 import PROGS as C24_PROGS

LEVEL = 'model_checking'
EXPLANATION = ('On symbolic runs of the real framework, sequences of the public query API (run_model, compute_totals in several '
               'return formats, compute_jacvec_product fwd/rev, check_partials, check_totals, list_inputs/list_outputs/list_vars, '
               'get_val with units/indices, driver-side _compute_totals) are executed on a converged problem; after every call '
               'the complete input, output (and residual) vectors must be the same terms, element by element, as before it, and '
               'a second run_model must reproduce the outputs.')
BOUNDS = dict(programs='basic_scaled, idx_flat, auto_units, matfree, chain3 (C24), implicit_asm (converged-state form)',
              sequences='every ordered pair (quick) / a seeded sample of triples (thorough) of 9 query operations')
STUBS = ['exact-elimination LU / symx.sparse (implicit program)', 'Problem.check_totals: the error-norm iterator _iter_derivs yields nothing (error arithmetic is C13, not state preservation)', 'text output of check_partials/check_totals/list_* sent to a null stream']
ASSUMPTIONS = ['reals']
OUTSIDE = ['dynamic coloring computation (random perturbations through NumPy RNG + sparsity detection on floats)', 'recorders']

OPS = ['totals_array', 'totals_dict', 'jvp_fwd', 'jvp_rev', 'check_partials', 'check_totals', 'list_vars', 'get_val', 'run_apply']


def harnesses(tier, seed):
    q = tier == 'quick'
    jobs = []
    progs = ['basic_scaled', 'idx_flat', 'auto_units', 'matfree', 'chain3'] if q else ['basic_scaled', 'idx_flat', 'auto_units', 'matfree', 'chain3', 'promote_chain', 'temp_offset', 'idx_nonflat']
    pairs = list(itertools.permutations(range(len(OPS)), 2)) + [(i, i) for i in range(len(OPS))]
    import random
    rng = random.Random(seed)
    for prog in progs:
        for mode in (('fwd',) if q else ('fwd', 'rev')):
            seqs = pairs[:]
            rng.shuffle(seqs)
            seqs = seqs[:12] if q else seqs + [tuple(rng.randrange(len(OPS)) for _ in range(3)) for _ in range(30)]
            # make sure every operation occurs at least once per program
            seqs = [(i, (i + 3) % len(OPS)) for i in range(len(OPS))] + seqs
            for i in range(0, len(seqs), 7):
                jobs.append(dict(fn='h_seq', params=dict(prog=prog, mode=mode, seqs=[list(s) for s in seqs[i:i + 7]]), wall_s=600 if q else 2400))
    jobs.append(dict(fn='h_seq', params=dict(prog='implicit_asm', mode='fwd', seqs=[[0, 2], [3, 1], [8, 0]])))
    return jobs


class _Null:
    def write(self, *a):
        pass

    def flush(self):
        pass


def _make(prog):
    if prog in C24_PROGS:
        return C24_PROGS[prog]()
    return (LIBRARY.get(prog) or IMPLICIT[prog])()


def _snapshot(p):
    m = p.model
    return (m._inputs.asarray(copy=True), m._outputs.asarray(copy=True), m._residuals.asarray(copy=True))


def _apply(ctx, op, P, p, k):
    of, wrt = P.ofs, P.wrts
    if op == 'totals_array':
        p.compute_totals(of=of, wrt=wrt, return_format='array')
    elif op == 'totals_dict':
        p.compute_totals(of=of[:1], wrt=wrt, return_format='dict')
    elif op in ('jvp_fwd', 'jvp_rev'):
        # (a problem set up in one mode only has that mode's transfers: both ops use the direction it was set up with)
        if p._orig_mode != 'rev':
            seed = {w: ctx.reals(f'v{k}_{i}', np.shape(p.get_val(w)), -5, 5) for i, w in enumerate(wrt)}
            p.compute_jacvec_product(of, wrt, 'fwd', seed)
        else:
            seed = {o: ctx.reals(f'w{k}_{i}', np.shape(p.get_val(o)), -5, 5) for i, o in enumerate(of)}
            p.compute_jacvec_product(of, wrt, 'rev', seed)
    elif op == 'check_partials':
        # (restricted to one component: the uncovered-nonzero bookkeeping forks on every finite-difference entry being zero or not)
        p.check_partials(out_stream=None, method='fd', form='forward', step=1.0 / 1024, includes=['*c1', '*l'])
    elif op == 'check_totals':
        if ctx.sym:
            # the error arithmetic (norm ratios compared with tolerances: C13's subject) sends z3 into nonlinear search and
            # has no bearing on whether the call leaves the model state alone
            import openmdao.core.problem as PB
            PB._iter_derivs = lambda *a, **k: iter(())
        p.check_totals(of=of[:1], wrt=wrt[:1], out_stream=None, method='fd', form='forward', step=1.0 / 1024)
    elif op == 'list_vars':
        p.model.list_inputs(out_stream=None, units=True, shape=True, prom_name=True)
        p.model.list_outputs(out_stream=None, residuals=True, bounds=True, scaling=True)
    elif op == 'get_val':
        for o in of:
            p.get_val(o)
        for w in wrt:
            p.get_val(w, indices=[0] if np.size(p.get_val(w)) else None)
    elif op == 'run_apply':
        p.model.run_apply_nonlinear()
    else:
        raise ValueError(op)


def h_seq(ctx, prog, mode, seqs):
    P = _make(prog)
    implicit = prog in IMPLICIT
    if implicit and ctx.sym:
        from symx import stubs
        stubs.install_lu()
    p = P.build(ctx, mode=mode)
    vals = P.set_indeps(ctx, p)
    states = {}
    for sv in getattr(P, 'states', []):
        s = ctx.reals('s_' + sv.abs.replace('.', '_'), sv.shape, -10, 10)
        p.set_val(sv.abs, s)
        states[sv.abs] = s
    p.run_model()
    ref_in, ref_out, ref_res = _snapshot(p)
    tol = 1e-9 if (P.uses_units() or any('ref' in f for f in P.features)) else 0
    k = 0
    for seq in seqs:
        tag = '+'.join(OPS[o] for o in seq)
        for o in seq:
            op = OPS[o]
            k += 1
            try:
                _apply(ctx, op, P, p, k)
            except np.linalg.LinAlgError:
                ctx.assume(False)
                return
            i2, o2, r2 = _snapshot(p)
            ctx.eq(f'inputs_after[{tag}@{op}]', i2, ref_in, tol)
            ctx.eq(f'outputs_after[{tag}@{op}]', o2, ref_out, tol)
            if op != 'run_apply' and not implicit:
                ctx.eq(f'residuals_after[{tag}@{op}]', r2, ref_res, tol)
            elif op == 'run_apply':
                ref_res = r2          # run_apply_nonlinear is allowed to (re)compute residuals; nothing else may change them
    # determinism: a second run_model from the same inputs reproduces the outputs
    for name, v in states.items():
        p.set_val(name, v)
    p.run_model()
    i2, o2, _ = _snapshot(p)
    ctx.eq('rerun_outputs', o2, ref_out, tol)
    ctx.eq('rerun_inputs', i2, ref_in, tol)
    ctx.observe('out', ref_out)
