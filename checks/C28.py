"""C28 Surrogate models reproduce training data and their own derivatives (ResponseSurface sliver)."""
import numpy as np
from openmdao.surrogate_models.response_surface import ResponseSurface

LEVEL = 'model_checking'
EXPLANATION = ('ResponseSurface.predict and .linearize executed on a directly constructed trained state (symbolic coefficient matrix '
               'betas, symbolic query point): predict must be the documented full quadratic in x with coefficients betas (constant, '
               'linear, then x_i*x_j for i<=j in row-major upper-triangular order) - hence it reproduces any quadratic given the right '
               'coefficients - and linearize must equal the chain-rule derivative of predict for every output.')
BOUNDS = dict(inputs='n <= 3', outputs='m <= 2')
STUBS = ['trained state constructed directly (n, m, betas); training itself is numpy.linalg.lstsq (LAPACK)']
ASSUMPTIONS = ['reals']
OUTSIDE = ['ResponseSurface.train (least squares in LAPACK)', 'KrigingSurrogate (Cholesky + scipy.optimize)', 'NearestNeighbor (cKDTree)', 'MetaModelUnStructuredComp on top of them',
           'i.e. the "returns the training outputs at training inputs" half of the property is not decided by this check']


def harnesses(tier, seed):
    return [dict(fn='h_rs', params=dict(n=n, m=m)) for n in (1, 2, 3) for m in (1, 2)]


def h_rs(ctx, n, m):
    nb = (n + 1) * (n + 2) // 2
    betas = ctx.reals('b', (nb, m), -5, 5)
    x = ctx.reals('x', n, -5, 5)
    rs = ResponseSurface()
    rs.n, rs.m, rs.betas = n, m, betas
    rs.trained = True
    y = np.asarray(rs.predict(x)).reshape(-1)
    # documented basis: 1, x_1..x_n, then x_i x_j (i <= j), row by row
    basis = [1] + [x[i] for i in range(n)] + [x[i] * x[j] for i in range(n) for j in range(i, n)]
    for k in range(m):
        want = 0
        for r in range(nb):
            want = want + basis[r] * betas[r, k]
        ctx.eq(f'predict[{k}]', y[k], want)
    J = np.asarray(rs.linearize(x))
    ctx.check('jac_shape', J.shape == (m, n))

    def fd(delta):
        return np.asarray(rs.predict(np.array(x, dtype=float) + np.asarray(delta)), dtype=float).reshape(-1)
    ctx.deriv_matrix('linearize', J, y, x, fd)
    ctx.observe('y', y)
