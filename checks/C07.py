"""C07 set_val and get_val round-trip through promotion, indices and units."""
import numpy as np
import openmdao.api as om

LEVEL = 'model_checking'
EXPLANATION = ('A real Problem with explicit IndepVarComp outputs, auto-IVC-backed promoted inputs (incl. one shared by two consumers '
               'with different units and src_indices), absolute component inputs and a 2-D variable.  The whole previous content of the '
               'addressed variable and the written value are symbolic.  For every addressable name x index form x unit string x phase '
               '(before final_setup, after final_setup, after run_model): get_val(name, units, indices) after set_val(name, v, units, '
               'indices) is v; every other element of the variable, read in model units, is the same term as before; the value survives '
               'the later phases (final_setup, run_model) unchanged for independent variables; a second overlapping write wins on the '
               'overlap only.')
BOUNDS = dict(names='absolute IVC output, promoted IVC output, promoted auto-IVC input (1-D and 2-D), the absolute name of an auto-IVC-backed input', values='arrays of the selected shape, or one scalar broadcast over the selection',
              indices='None, int, negative int, slice, reversed slice, int list with negatives, tuples mixing ints / slices / index lists (2-D), om.slicer forms', units='None, declared units, prefixed/affine-related units (m/cm/mm/km/inch, degC/degF/degK)')
STUBS = ['module-global float pass-through in general_utils/system/units']
ASSUMPTIONS = ['reals; unit factors are float64 constants (1e-9 margin when a conversion is involved)']
OUTSIDE = ['remote/distributed variables', 'discrete variables', 'set_val on a connected (non-independent) input followed by run_model: overwritten by the transfer, as documented']

IDX = {'none': None, 'int': 1, 'neg': -1, 'slice': slice(0, 2), 'rev': slice(None, None, -2), 'list': [-1, 0], 'list3': [1, -3, 2]}
IDX2 = {'none': None, 'row': 1, 'tuple': (0, slice(None)), 'tuple2': (slice(None), -1), 'elem': (1, 0), 'slicer': 'slicer',
        'mixed': (slice(None), [0, 2]), 'mixed2': ([1, 0], slice(1, None)), 'fancy': ([0, 1], [2, 0])}
UNITS = {'len': ['m', 'cm', 'mm', 'km', 'inch', None], 'temp': ['degC', 'degF', 'degK', None]}
PHASES = ['pre', 'post_final', 'post_run']


def harnesses(tier, seed):
    q = tier == 'quick'
    jobs = []
    names = ['ivc_abs', 'ivc_prom', 'auto', 'auto_shared', 'auto_abs']
    k = 0
    for name in names:
        for ik in IDX:
            for u in UNITS['len']:
                for ph in PHASES:
                    k += 1
                    if q and k % 13 != 0:
                        continue
                    jobs.append(dict(fn='h_roundtrip', params=dict(name=name, idx=ik, units=u, phase=ph)))
    for ik in IDX2:
        for ph in PHASES:
            jobs.append(dict(fn='h_roundtrip2d', params=dict(idx=ik, phase=ph, units='cm' if ik in ('row', 'tuple') else None)))
    for u in UNITS['temp']:
        for ph in (PHASES[:1] if q else PHASES):
            jobs.append(dict(fn='h_roundtrip', params=dict(name='temp', idx='list', units=u, phase=ph)))
    for ph in PHASES:
        jobs.append(dict(fn='h_two_writes', params=dict(phase=ph)))
    # the absolute name of an auto-IVC-backed input with a single index, in every phase; a scalar written to several entries
    for ph in PHASES:
        jobs.append(dict(fn='h_roundtrip', params=dict(name='auto_abs', idx='int', units=None, phase=ph)))
        jobs.append(dict(fn='h_roundtrip', params=dict(name='auto_abs', idx='neg', units='cm', phase=ph)))
        for name, ik in (('auto', 'list3'), ('ivc_abs', 'slice')) if q else (('auto', 'list3'), ('ivc_abs', 'slice'), ('ivc_prom', 'none'), ('auto_abs', 'list'), ('auto_shared', 'rev')):
            jobs.append(dict(fn='h_roundtrip', params=dict(name=name, idx=ik, units=None if name != 'auto' else 'mm', phase=ph, scalar=True)))
    # a value set before final_setup on an auto-IVC tree that is resolved a second time (dynamic shapes) and has input defaults
    jobs.append(dict(fn='h_dynamic_tree', params=dict(defaults=True)))
    jobs.append(dict(fn='h_dynamic_tree', params=dict(defaults=False)))
    # batch several cases per worker job
    return jobs


def _install(ctx):
    if ctx.sym:
        from symx import stubs
        import openmdao.utils.general_utils as GU
        import openmdao.core.system as SY
        import openmdao.utils.units as UN
        stubs.install_float(GU, SY, UN)


class _Sum(om.ExplicitComponent):
    def __init__(self, xp, ins):
        super().__init__()
        self._a = (xp, ins)

    def setup(self):
        xp, ins = self._a
        for nm, (shape, units) in ins.items():
            self.add_input(nm, val=xp.ones(shape), units=units)
        self.add_output('s', val=xp.ones(1))
        self.declare_partials('*', '*', method='fd')

    def compute(self, i, o):
        t = 0
        for nm in self._a[1]:
            t = t + i[nm].sum()
        o['s'] = t


def _problem(ctx):
    xp = ctx.np
    p = om.Problem()
    ivc = p.model.add_subsystem('ivc', om.IndepVarComp())
    ivc.add_output('a', val=xp.ones(3), units='m')
    ivc.add_output('t', val=xp.ones(3), units='degC')
    g = p.model.add_subsystem('g', om.Group(), promotes_outputs=['b'])
    ivc2 = g.add_subsystem('ivc2', om.IndepVarComp(), promotes_outputs=['b'])
    ivc2.add_output('b', val=xp.ones(3), units='m')
    # consumers
    p.model.add_subsystem('c1', _Sum(xp, {'xa': ((3,), 'cm'), 'xt': ((3,), 'degF')}))
    p.model.connect('ivc.a', 'c1.xa')
    p.model.connect('ivc.t', 'c1.xt')
    p.model.add_subsystem('c2', _Sum(xp, {'xb': ((3,), 'mm')}))
    p.model.connect('b', 'c2.xb')
    # auto-IVC backed promoted inputs
    p.model.add_subsystem('c3', _Sum(xp, {'w': ((3,), 'm')}), promotes_inputs=['w'])
    h = p.model.add_subsystem('h', om.Group(), promotes_inputs=['sh'])
    h.add_subsystem('c4', _Sum(xp, {'sh': ((3,), 'm')}), promotes_inputs=['sh'])
    p.model.add_subsystem('c5', _Sum(xp, {'sh': ((2,), 'cm')}))
    p.model.promotes('c5', inputs=['sh'], src_indices=[0, -1], src_shape=(3,))
    p.model.set_input_defaults('sh', val=xp.ones(3), units='m')
    p.model.add_subsystem('c6', _Sum(xp, {'M': ((2, 3), 'm')}), promotes_inputs=['M'])
    p.setup()
    return p


NAMES = {'ivc_abs': ('ivc.a', 'm', (3,)), 'ivc_prom': ('b', 'm', (3,)), 'auto': ('w', 'm', (3,)), 'auto_shared': ('sh', 'm', (3,)), 'auto_abs': ('c3.w', 'm', (3,)),
         'temp': ('ivc.t', 'degC', (3,)), 'mat': ('M', 'm', (2, 3))}


def _advance(p, frm, to):
    order = PHASES
    i, j = order.index(frm), order.index(to)
    if i < 1 <= j:
        p.final_setup()
    if i < 2 <= j:
        p.run_model()


def _conv(ctx, val, frm, to):
    if frm == to or frm is None or to is None:
        return val
    from openmdao.utils.units import unit_conversion
    f, o = unit_conversion(frm, to)
    return (val + ctx.const(o)) * ctx.const(f)


def _roundtrip(ctx, name, idx, units, phase, shape, scalar=False):
    _install(ctx)
    p = _problem(ctx)
    nm, model_units, _ = NAMES[name]
    old = ctx.reals('old', shape, -50, 50)
    p.set_val(nm, old)                                  # previous contents (model units), written before any phase change
    _advance(p, 'pre', phase)
    probe = np.arange(int(np.prod(shape))).reshape(shape)
    sel = probe[idx] if idx is not None else probe
    if scalar:      # one value written to every selected entry (NumPy broadcasting)
        v0 = ctx.real('v0', -50, 50)
        v = ctx.array([v0] * int(np.size(sel))).reshape(np.shape(sel)) if ctx.sym else np.full(np.shape(sel), float(v0))
        vv = v0
    else:
        v = ctx.reals('v', np.shape(sel) if np.shape(sel) else 1, -50, 50)
        vv = v if np.shape(sel) else v[0]
    kw = {}
    if units is not None:
        kw['units'] = units
    if idx is not None:
        kw['indices'] = idx
    p.set_val(nm, vv, **kw)
    tol = 0 if units in (None, model_units) else 1e-9
    got = p.get_val(nm, **kw)
    ctx.eq('get_after_set', np.asarray(got).reshape(-1), np.asarray(v).reshape(-1), tol)
    # the whole variable in model units: selected entries hold convert(v), all others are untouched
    want = np.array(old, dtype=object if ctx.sym else float).copy()
    conv = _conv(ctx, np.asarray(v, dtype=object if ctx.sym else float), units, model_units) if units else np.asarray(v)
    if idx is not None:
        want[idx] = np.asarray(conv).reshape(np.shape(sel)) if np.shape(sel) else np.asarray(conv).reshape(-1)[0]
    else:
        want[...] = np.asarray(conv).reshape(shape)
    full = p.get_val(nm)
    ctx.eq('whole_variable', full, want, tol)
    # later phases do not disturb an independent variable
    _advance(p, phase, 'post_run')
    ctx.eq('after_run', p.get_val(nm), want, tol)
    ctx.eq('get_after_run', np.asarray(p.get_val(nm, **kw)).reshape(-1), np.asarray(v).reshape(-1), tol)
    # consumers see the source value through the connection (units + src_indices), cf. C04
    if name == 'auto_shared':
        ctx.eq('consumer_c5', p.get_val('c5.sh'), _conv(ctx, want[[0, -1]], 'm', 'cm'), 1e-9)
        ctx.eq('consumer_c4', p.get_val('h.c4.sh'), want, tol)
    if name == 'ivc_abs':
        ctx.eq('consumer_c1', p.get_val('c1.xa'), _conv(ctx, want, 'm', 'cm'), 1e-9)
    ctx.observe('full', full)


def h_roundtrip(ctx, name, idx, units, phase, scalar=False):
    _roundtrip(ctx, name, IDX[idx], units, phase, (3,), scalar=scalar)


def h_roundtrip2d(ctx, idx, phase, units):
    ix = om.slicer[:, 1:] if IDX2[idx] == 'slicer' else IDX2[idx]
    _roundtrip(ctx, 'mat', ix, units, phase, (2, 3))


def h_two_writes(ctx, phase):
    """interleaved writes: the later write wins on the overlap, the earlier one survives elsewhere"""
    _install(ctx)
    p = _problem(ctx)
    old = ctx.reals('old', 3, -50, 50)
    p.set_val('w', old)
    _advance(p, 'pre', phase)
    v1 = ctx.reals('v1', 2, -50, 50)
    v2 = ctx.reals('v2', 2, -50, 50)
    p.set_val('w', v1, indices=[0, 1], units='cm')
    p.set_val('w', v2, indices=slice(1, 3))
    c = _conv(ctx, np.asarray(v1, dtype=object if ctx.sym else float), 'cm', 'm')
    want = [c[0], v2[0], v2[1]]
    ctx.eq('after_two_writes', p.get_val('w'), ctx.array(want) if ctx.sym else np.array(want, dtype=float), 1e-9)
    _advance(p, phase, 'post_run')
    ctx.eq('after_run', p.get_val('w'), ctx.array(want) if ctx.sym else np.array(want, dtype=float), 1e-9)
    ctx.eq('read_in_mm', p.get_val('w', units='mm', indices=[2]), (ctx.array([v2[1]]) if ctx.sym else np.array([v2[1]])) * 1000, 1e-9)
    ctx.observe('w', p.get_val('w'))


class _Dyn(om.ExplicitComponent):
    def __init__(self, xp):
        super().__init__()
        self._xp = xp

    def setup(self):
        self.add_input('q', shape_by_conn=True)
        self.add_output('s', val=self._xp.ones(1))
        self.declare_partials('*', '*', method='fd')

    def compute(self, i, o):
        o['s'] = i['q'].sum()


def h_dynamic_tree(ctx, defaults):
    """two inputs promoted to one name, one of them sized by its connection (the tree is resolved again once the dynamic shapes
    are known): a value written before final_setup is still there afterwards"""
    _install(ctx)
    xp = ctx.np
    p = om.Problem()
    p.model.add_subsystem('a', _Dyn(xp), promotes_inputs=['q'])
    p.model.add_subsystem('b', _Sum(xp, {'q': ((3,), None)}), promotes_inputs=['q'])
    if defaults:
        p.model.set_input_defaults('q', val=xp.array([1.0, 2.0, 3.0]) if xp is not np else np.array([1.0, 2.0, 3.0]))
    p.setup()
    v = ctx.reals('v', 3, -50, 50)
    p.set_val('q', v)
    ctx.eq('get_before_final_setup', p.get_val('q'), v)
    p.final_setup()
    ctx.eq('get_after_final_setup', p.get_val('q'), v)
    p.run_model()
    ctx.eq('get_after_run', p.get_val('q'), v)
    ctx.eq('consumer_b', p.get_val('b.q'), v)
    ctx.eq('consumer_a', p.get_val('a.q'), v)
    ctx.observe('q', p.get_val('q'))
