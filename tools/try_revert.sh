#!/bin/bash
# tools/try_revert.sh <PROP> <fix-commit> [tier] [extra check args]: runs the check against a scratch worktree of /repo in which
# one of the "fix:" commits is reverted (the original defect re-introduced); never touches /repo itself
PROP=$1; C=$2; TIER=${3:-quick}; shift 3 2>/dev/null
WT=$(mktemp -d /tmp/revwt.XXXXXX); rmdir $WT
git -C /repo worktree add -q --detach $WT HEAD || exit 9
cleanup() { git -C /repo worktree remove --force $WT 2>/dev/null; rm -rf $WT; }
trap cleanup EXIT
git -C /repo show $C | git -C $WT apply -R || { echo "REVERT-DOES-NOT-APPLY"; exit 9; }
cd /verif
VERIF_REPO=$WT VERIF_EVIDENCE_DIR=/tmp/rev_evid_$$ ./check $PROP --tier $TIER "$@" 2>&1 | grep -v "^WARNING conda" | cut -c1-600 | tail -n 6
echo "check_exit=${PIPESTATUS[0]}"
rm -rf /tmp/rev_evid_$$
