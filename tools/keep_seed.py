#!/usr/bin/env python3
"""tools/keep_seed.py <PROP> <mN> "<which check/harness catches it>"  : copies a confirmed seeded change from /tmp/seedres into /verif/seeded/<PROP>-<mN>/"""
import json, os, re, shutil, sys
prop, m, caught = sys.argv[1:4]
src = f'/tmp/seedres/{prop}/{m}'
dst = f'/verif/seeded/{prop}-{m}'
os.makedirs(dst, exist_ok=True)
shutil.copy(f'{src}/patch.diff', dst)
shutil.copy(f'{src}/demo.py', dst)
meta = json.load(open(f'{src}/meta.json'))
conf = json.load(open(f'{src}/confirm.json')) if os.path.exists(f'{src}/confirm.json') else {}
res = f'/tmp/seedres/res_{prop}_{m}.txt'
chk = {}
if os.path.exists(res):
    t = open(res).read()
    chk = dict(check_exit=int((re.findall(r'check_exit=(\d+)', t) or ['-1'])[-1]), violation_lines=t.count('VIOLATION property='),
               first_violation=(re.findall(r'  harness=.*', t) or [''])[0][:400])
only = conf.get('tests_failing_only_with_change', '')
only = ';'.join(x for x in only.split(';') if x.strip() and '/tmp/confwt' not in x)
out = dict(property=prop, name=f'{prop}-{m}', breaks=meta.get('summary'), needs_to_manifest=meta.get('needs_to_manifest'),
           files_changed=meta.get('files_changed'), author='independent sub-agent given only the property text and a scratch worktree',
           author_tests_run=meta.get('tests_run'),
           confirmed=dict(demo_exit_on_unchanged_tree=conf.get('demo_exit_clean_tree'), demo_exit_with_change=conf.get('demo_exit_with_change'),
                          pinned_suite_with_change=conf.get('pytest_summary'),
                          pinned_suite_unchanged_worktree='71 failed, 3783 passed, 877 skipped (cmdline/network tests that fail in any scratch worktree; seeded/baseline_failures.txt)',
                          tests_failing_only_with_change=only or 'none',
                          how=conf.get('pytest_cmd')),
           detected_by=caught, check_run=chk,
           ran='tools/try_seed.sh (check against a scratch worktree with the change applied, VERIF_REPO) and tools/confirm_seed.sh')
json.dump(out, open(f'{dst}/meta.json', 'w'), indent=1)
print(dst, chk.get('check_exit'), conf.get('pytest_summary', '')[:60])
