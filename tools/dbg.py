#!/usr/bin/env python
"""debug one harness: tools/dbg.py C33 h_views '{"kind":"output","linear":false}' [sym|float]"""
import sys, json, os, traceback, time
HERE = os.path.dirname(os.path.dirname(os.path.abspath(__file__)))
sys.path.insert(0, HERE)
os.environ['OPENMDAO_REPORTS'] = '0'
import tempfile; os.chdir(tempfile.mkdtemp(prefix='symx_dbg_'))
import warnings; warnings.filterwarnings('ignore')
check, fn = sys.argv[1], sys.argv[2]
params = json.loads(sys.argv[3]) if len(sys.argv) > 3 else {}
mode = sys.argv[4] if len(sys.argv) > 4 else 'sym'
inputs = json.loads(sys.argv[5]) if len(sys.argv) > 5 else {}
import importlib
mod = importlib.import_module('checks.' + check)
f = getattr(mod, fn)
from symx.ctx import Ctx
t0 = time.time()
if mode == 'float':
    ctx = Ctx('float', None, inputs)
    try:
        f(ctx, **params)
    except Exception:
        traceback.print_exc()
    bad = [(n, m) for n, ok, m in ctx.obligations if not ok]
    print('obligations', len(ctx.obligations), 'failed', bad[:10])
else:
    from symx import npstub
    from symx.explorer import explore
    import openmdao.api
    npstub.patch_all()
    def run(ex):
        ctx = Ctx(mode, ex, inputs)
        npstub.patch_all()
        try:
            f(ctx, **params)
        except Exception as e:
            if os.environ.get('TB'):
                traceback.print_exc()
            e._symx_partial = ctx.finish()
            raise
        return ctx.finish()
    r = explore(run, max_paths=int(os.environ.get('MAXP', '2000')), wall_s=float(os.environ.get('WALL', '300')))
    print(json.dumps(r['stats'], default=str))
    for fd in r['findings'][:int(os.environ.get('NF', '5'))]:
        print('FINDING', fd['kind'], fd['name'], json.dumps(fd['inputs'])[:500])
        print('   ', (fd.get('message') or '')[:300], (fd.get('goal') or '')[:300])
        if fd.get('traceback'):
            print(fd['traceback'][-1500:])
print('wall', round(time.time() - t0, 2))
