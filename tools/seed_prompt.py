#!/usr/bin/env python3
"""prints the prompt given to an independent sub-agent that seeds a property-breaking change
(usage: seed_prompt.py C04 /tmp/wt/C04 /tmp/seed_out/C04)"""
import json, sys
pid, wt, out = sys.argv[1:4]
for l in open('/verif/properties.jsonl'):
    p = json.loads(l)
    if p['id'] == pid:
        break
txt = json.dumps({k: p[k] for k in ('id', 'title', 'statement', 'quantifier', 'why_tests_cant', 'anchors')}, indent=1)
print(f"""You are working on a scratch git worktree of the OpenMDAO Python framework at {wt} (a checkout of the project's current HEAD). Work ONLY inside {wt} and write your deliverables to {out} (create it). Never read, write or run anything in /repo or /verif.

To run Python against this worktree use:  cd {wt} && PYTHONPATH={wt} /venv/bin/python ...   (check once that `import openmdao; openmdao.__file__` points into {wt}). Set OPENMDAO_REPORTS=0. There is no network. Run things from a temp cwd or clean up: tests leave *_out directories inside the directory they run in: run them from inside your worktree and delete only those (never delete anything outside your worktree and your deliverables directory; in particular never run rm on /tmp/* patterns).

Here is a semantic property that OpenMDAO is supposed to satisfy:

{txt}

TASK: write a *realistic* change (a plausible bug a developer could introduce in a refactor/optimisation/bug-fix) to OpenMDAO's non-test source code that BREAKS this property, while the code still imports/compiles and the existing test suite still passes. The change must need something specific to manifest — an unusual input or option combination, a multi-step sequence of operations, a particular boundary value, or two cooperating sites that each look fine alone — not something ordinary use (or the existing tests) would expose at once. Keep it small (a few lines). Do not edit tests. Do not add new files to the package.

Deliver TWO different such changes if you can (different code sites / different triggering conditions), as:
  {out}/m1/patch.diff   (output of `git -C {wt} diff` for the change alone)
  {out}/m1/demo.py      (a small standalone program that exercises the public OpenMDAO API, exits 0 and prints PASS when the property holds, and exits 1 printing FAIL when it is broken; it must FAIL with the patch applied and PASS on the unpatched worktree; run it with PYTHONPATH={wt})
  {out}/m1/meta.json    ({{"property": "{pid}", "summary": "...", "needs_to_manifest": "...", "files_changed": [...], "tests_run": "the exact pytest command(s) you ran and their pass/fail counts"}})
  and likewise {out}/m2/...

Procedure: read the relevant code; make change 1; run the demo (must FAIL); run the tests of the directories you touched and the closely related ones with `cd {wt} && PYTHONPATH={wt} OPENMDAO_REPORTS=0 /venv/bin/python -m pytest -q -p no:cacheprovider -x -n 6 --timeout=900 <test dirs>` (they must all pass, compare against the unpatched result if something fails: pre-existing failures don't count); if tests catch your change, pick a subtler one. Save the diff, then `git -C {wt} checkout -- .` and verify the demo PASSES on the clean tree. Repeat for change 2. Leave the worktree clean (no patch applied, no stray files) when you finish. Report briefly what each change is and what it needs to manifest.""")
