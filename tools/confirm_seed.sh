#!/bin/bash
# tools/confirm_seed.sh <PROP> <mutant dir> <name>  : independent confirmation of a seeded change in a scratch worktree
# (demo passes on the clean tree, fails with the change; the pinned test suite still passes with the change);
# writes <mutant dir>/confirm.json
PROP=$1; M=$(readlink -f $2); NAME=$3
WT=$(mktemp -d /tmp/confwt.XXXXXX); rmdir $WT
git -C /repo worktree add -q --detach $WT HEAD || exit 9
cleanup() { git -C /repo worktree remove --force $WT 2>/dev/null; rm -rf $WT; }
trap cleanup EXIT
T=$(mktemp -d)
(cd $T && PYTHONPATH=$WT OPENMDAO_REPORTS=0 timeout 900 /venv/bin/python $M/demo.py >$T/clean.out 2>&1); CLEAN=$?
git -C $WT apply $M/patch.diff || { echo '{"applies": false}' > $M/confirm.json; exit 9; }
(cd $T && PYTHONPATH=$WT OPENMDAO_REPORTS=0 timeout 900 /venv/bin/python $M/demo.py >$T/patched.out 2>&1); PATCHED=$?
(cd $WT && PYTHONPATH=$WT OPENMDAO_REPORTS=0 timeout 3600 /venv/bin/python -m pytest -q -p no:cacheprovider -n ${NJ:-8} --timeout=900 --continue-on-collection-errors openmdao > $T/pytest.out 2>&1); PYT=$?
SUMMARY=$(tail -n 1 $T/pytest.out)
grep -E "^(FAILED|ERROR) " $T/pytest.out | sed 's/ - .*//' | sort -u > $T/failed.txt
NEWFAIL=$(comm -23 $T/failed.txt <(sort -u /verif/seeded/baseline_failures.txt) | head -8 | tr '\n' ';')
FAILED=$NEWFAIL
python3 - <<P
import json
json.dump(dict(name="$NAME", property="$PROP", demo_exit_clean_tree=$CLEAN, demo_exit_with_change=$PATCHED, pytest_exit_with_change=$PYT,
     pytest_summary="""$SUMMARY""", tests_failing_only_with_change="""$FAILED""",
     pytest_cmd="cd <worktree> && PYTHONPATH=<worktree> /venv/bin/python -m pytest -q -p no:cacheprovider -n 8 --timeout=900 --continue-on-collection-errors openmdao (failures compared with /verif/seeded/baseline_failures.txt = the same command on the unchanged worktree)"),
     open("$M/confirm.json","w"), indent=1)
P
rm -rf $T
cat $M/confirm.json
