#!/bin/bash
# tools/try_seed.sh <PROP> <mutant dir with patch.diff [+demo.py]> [tier] [extra check args]
# applies the seeded change in a scratch worktree of /repo (never in /repo), runs the demo and the check against it
PROP=$1; M=$(readlink -f $2); TIER=${3:-quick}; shift 3 2>/dev/null
WT=$(mktemp -d /tmp/seedwt.XXXXXX); rmdir $WT
git -C /repo worktree add -q --detach $WT HEAD || exit 9
cleanup() { git -C /repo worktree remove --force $WT 2>/dev/null; rm -rf $WT; }
trap cleanup EXIT
git -C $WT apply $M/patch.diff || { echo "PATCH-DOES-NOT-APPLY"; exit 9; }
if [ -f $M/demo.py ]; then
  (cd $(mktemp -d) && PYTHONPATH=$WT OPENMDAO_REPORTS=0 timeout 600 /venv/bin/python $M/demo.py >/dev/null 2>&1; echo "demo_with_patch_exit=$?")
fi
cd /verif
VERIF_REPO=$WT VERIF_EVIDENCE_DIR=/tmp/seed_evid_$$ ./check $PROP --tier $TIER "$@" 2>&1 | grep -v "^WARNING conda" | cut -c1-900
echo "check_exit=${PIPESTATUS[0]}"
rm -rf /tmp/seed_evid_$$ /tmp/replays_alt
