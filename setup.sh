#!/bin/bash
# Offline: overlay venv on /venv with z3-solver, crosshair-tool (and cvc5 if available) from the wheelhouse.
set -e
HERE="$(cd "$(dirname "${BASH_SOURCE[0]}")" && pwd)"
exec 9>"$HERE/.setup.lock"
flock 9
if [ -x "$HERE/.venv/bin/python" ] && "$HERE/.venv/bin/python" -c "import z3, crosshair, openmdao, numpy" 2>/dev/null; then
  exit 0
fi
rm -rf "$HERE/.venv"
/venv/bin/python -m venv "$HERE/.venv"
SP="$("$HERE/.venv/bin/python" -c 'import sysconfig; print(sysconfig.get_paths()["purelib"])')"
echo "import site; site.addsitedir('/venv/lib/python3.12/site-packages')" > "$SP/_base.pth"
PIP_NO_INDEX=1 "$HERE/.venv/bin/pip" install -q --no-index --find-links /opt/veriftools/wheels z3-solver crosshair-tool
PIP_NO_INDEX=1 "$HERE/.venv/bin/pip" install -q --no-index --find-links /opt/veriftools/wheels cvc5 || true
"$HERE/.venv/bin/python" -c "import z3, crosshair, openmdao, numpy; print('ok', z3.get_version_string())"
