"""Stand-ins for scipy.sparse.{coo,csc,csr}_matrix that can carry symbolic (object) data.

The *structure* is SciPy's own: every constructor call builds the real SciPy matrix from a float pattern, so the
canonical CSC/CSR layout (sorted indices, merged duplicates) that OpenMDAO's index maps must agree with is the
one SciPy really produces.  Only the numeric payload is replaced by an object array, and the few operations
OpenMDAO uses on these matrices (matvec, transpose, toarray, tocoo/tocsc/tocsr, row slicing, .data access) are
implemented here from the documented storage semantics.  selftest() compares them with SciPy on concrete data."""
import numpy as np
import scipy.sparse as sp

from .npstub import OA, oa, _w


def _obj(data):
    a = np.asarray(data)
    if a.dtype != object:
        return oa(a)
    return a.view(OA) if not isinstance(a, OA) else a


class _Base:
    _symx_sparse = True
    ndim = 2

    @property
    def dtype(self):
        return np.dtype(float)

    @property
    def nnz(self):
        return int(self.data.size)

    def getnnz(self):
        return self.nnz

    def transpose(self, *a, **k):
        return self.T

    def todense(self):
        return self.toarray()

    def copy(self):
        import copy as _c
        c = _c.copy(self)
        c.data = self.data.copy()
        return c

    def astype(self, *a, **k):
        return self.copy()

    def __matmul__(self, x):
        x = np.asarray(x, dtype=object) if not isinstance(x, np.ndarray) else x
        if x.ndim == 1:
            return self._matvec(x)
        cols = [self._matvec(x[:, j]) for j in range(x.shape[1])]
        return np.stack(cols, axis=1).view(OA)

    def dot(self, x):
        return self.__matmul__(x)

    def __rmatmul__(self, x):
        return (self.T @ np.asarray(x).T).T

    def __mul__(self, x):
        if np.ndim(x) == 0:
            c = self.copy()
            c.data = c.data * x
            return c
        return self.__matmul__(x)

    def __getitem__(self, idx):
        return _Dense(self.toarray()[idx])

    def multiply(self, other):
        return _Dense(self.toarray() * (other.toarray() if hasattr(other, 'toarray') else other))


class _Dense:
    def __init__(self, a):
        self.a = np.atleast_2d(a).view(OA)
        self.shape = self.a.shape

    def toarray(self):
        return self.a
    todense = toarray


class coo_matrix(_Base):
    format = 'coo'

    def __init__(self, arg, shape=None, dtype=None, copy=False):
        if isinstance(arg, _Base):
            c = arg.tocoo()
            self.row, self.col, self.data, self.shape = c.row, c.col, c.data, c.shape
            return
        if isinstance(arg, tuple) and len(arg) == 2 and isinstance(arg[1], tuple):
            data, (row, col) = arg
            self.row = np.asarray(row, dtype=np.int64).copy()
            self.col = np.asarray(col, dtype=np.int64).copy()
            self.data = _obj(data).copy()
            if shape is None:
                shape = (int(self.row.max()) + 1 if self.row.size else 0, int(self.col.max()) + 1 if self.col.size else 0)
            self.shape = tuple(int(s) for s in shape)
            return
        if sp.issparse(arg):
            c = arg.tocoo()
            self.row, self.col, self.data, self.shape = c.row.astype(np.int64), c.col.astype(np.int64), _obj(c.data), c.shape
            return
        a = np.atleast_2d(np.asarray(arg, dtype=object))
        r, c = np.nonzero(np.array([[not _is_zero(v) for v in row] for row in a], dtype=bool))
        self.row, self.col, self.data, self.shape = r.astype(np.int64), c.astype(np.int64), _obj(a[r, c]), a.shape

    @property
    def T(self):
        return coo_matrix((self.data, (self.col, self.row)), shape=(self.shape[1], self.shape[0]))

    def _matvec(self, x):
        y = np.zeros(self.shape[0], dtype=object)
        for k in range(self.data.size):
            y[self.row[k]] = y[self.row[k]] + self.data[k] * x[self.col[k]]
        return y.view(OA)

    def toarray(self):
        a = np.zeros(self.shape, dtype=object)
        for k in range(self.data.size):
            a[self.row[k], self.col[k]] = a[self.row[k], self.col[k]] + self.data[k]
        return a.view(OA)

    def tocoo(self, copy=False):
        return coo_matrix((self.data.copy() if copy else self.data, (self.row, self.col)), shape=self.shape)

    def tocsc(self, copy=False):
        return csc_matrix((self.data, (self.row, self.col)), shape=self.shape)

    def tocsr(self, copy=False):
        return csr_matrix((self.data, (self.row, self.col)), shape=self.shape)


def _is_zero(v):
    try:
        return bool(v == 0)
    except Exception:
        return False


class _Compressed(_Base):
    """shared by CSC (major = column) and CSR (major = row)"""

    def __init__(self, arg, shape=None, dtype=None, copy=False):
        cls = sp.csc_matrix if self.format == 'csc' else sp.csr_matrix
        if isinstance(arg, _Base):
            c = arg.tocoo()
            arg = (c.data, (c.row, c.col))
            shape = c.shape
        if isinstance(arg, tuple) and len(arg) == 3:
            data, indices, indptr = arg
            self.indices = np.asarray(indices, dtype=np.int64).copy()
            self.indptr = np.asarray(indptr, dtype=np.int64).copy()
            self.data = _obj(data).copy()
            self.shape = tuple(int(s) for s in shape)
            return
        if isinstance(arg, tuple) and len(arg) == 2 and isinstance(arg[1], tuple):
            data, (row, col) = arg
            row = np.asarray(row, dtype=np.int64)
            col = np.asarray(col, dtype=np.int64)
            data = _obj(data)
            if shape is None:
                shape = (int(row.max()) + 1, int(col.max()) + 1)
            # SciPy's own canonical structure for this pattern (duplicates merged, indices sorted)
            S = cls((np.ones(row.size), (row, col)), shape=shape)
            S.sum_duplicates()
            S.sort_indices()
            self.indices = S.indices.astype(np.int64)
            self.indptr = S.indptr.astype(np.int64)
            self.shape = tuple(int(s) for s in S.shape)
            out = np.zeros(self.indices.size, dtype=object)
            major, minor = (col, row) if self.format == 'csc' else (row, col)
            for k in range(row.size):
                lo, hi = self.indptr[major[k]], self.indptr[major[k] + 1]
                p = lo + int(np.searchsorted(self.indices[lo:hi], minor[k]))
                out[p] = out[p] + data[k]
            self.data = out.view(OA)
            return
        if sp.issparse(arg):
            S = cls(arg)
            self.indices, self.indptr, self.data, self.shape = S.indices.astype(np.int64), S.indptr.astype(np.int64), _obj(S.data), S.shape
            return
        c = coo_matrix(arg)
        self.__init__((c.data, (c.row, c.col)), shape=c.shape)

    def _entries(self):
        for j in range(len(self.indptr) - 1):
            for p in range(self.indptr[j], self.indptr[j + 1]):
                yield (self.indices[p], j, p) if self.format == 'csc' else (j, self.indices[p], p)

    def _matvec(self, x):
        y = np.zeros(self.shape[0], dtype=object)
        for r, c, p in self._entries():
            y[r] = y[r] + self.data[p] * x[c]
        return y.view(OA)

    def toarray(self):
        a = np.zeros(self.shape, dtype=object)
        for r, c, p in self._entries():
            a[r, c] = a[r, c] + self.data[p]
        return a.view(OA)

    def tocoo(self, copy=False):
        rows, cols, ps = [], [], []
        for r, c, p in self._entries():
            rows.append(r), cols.append(c), ps.append(p)
        return coo_matrix((self.data[ps] if ps else self.data[:0], (np.array(rows, dtype=np.int64), np.array(cols, dtype=np.int64))), shape=self.shape)

    def sort_indices(self):
        pass

    def sum_duplicates(self):
        pass

    def eliminate_zeros(self):
        pass


class csc_matrix(_Compressed):
    format = 'csc'

    @property
    def T(self):
        return csr_matrix((self.data, self.indices, self.indptr), shape=(self.shape[1], self.shape[0]))

    def tocsc(self, copy=False):
        return self.copy() if copy else self

    def tocsr(self, copy=False):
        c = self.tocoo()
        return csr_matrix((c.data, (c.row, c.col)), shape=self.shape)


class csr_matrix(_Compressed):
    format = 'csr'

    @property
    def T(self):
        return csc_matrix((self.data, self.indices, self.indptr), shape=(self.shape[1], self.shape[0]))

    def tocsr(self, copy=False):
        return self.copy() if copy else self

    def tocsc(self, copy=False):
        c = self.tocoo()
        return csc_matrix((c.data, (c.row, c.col)), shape=self.shape)


def issparse(x):
    return isinstance(x, _Base) or sp.issparse(x)


class _SpLU:
    def __init__(self, A):
        self.A = A.toarray()
        self.shape = A.shape

    def solve(self, b, trans='N'):
        from . import linalg
        return linalg.solve(self.A, b, trans=0 if trans == 'N' else 1)


def splu(A, *a, **k):
    return _SpLU(A)


def inv(A):
    from . import linalg
    M = A.toarray()
    n = M.shape[0]
    cols = [linalg.solve(M, oa(np.eye(n)[:, j])) for j in range(n)]
    return _Dense(np.stack(cols, axis=1))


MODULES = ['openmdao.matrices.coo_matrix', 'openmdao.matrices.csc_matrix', 'openmdao.matrices.csr_matrix', 'openmdao.matrices.dense_matrix',
           'openmdao.jacobians.subjac', 'openmdao.jacobians.jacobian', 'openmdao.solvers.linear.direct', 'openmdao.components.interp_util.interp_bsplines']


def _convert_info(info):
    n = 0
    for meta in info.values():
        v = meta.get('val')
        if sp.issparse(v):
            cls = {'coo': coo_matrix, 'csc': csc_matrix, 'csr': csr_matrix}.get(v.format)
            meta['val'] = cls(v) if cls else coo_matrix(v.tocoo())
            n += 1
    return n


def install(extra=()):
    """rebind the scipy.sparse constructors imported by name in the OpenMDAO modules that build assembled matrices, and convert
    partials that were declared with a real scipy.sparse value to the stand-in of the same format at the moment a Jacobian is
    created from a system's declared-partials metadata"""
    import importlib
    import sys
    import openmdao.jacobians.jacobian as JM
    if not getattr(JM.Jacobian.__init__, '_symx', False):
        orig_init = JM.Jacobian.__init__

        def __init__(self, system, *a, **k):
            _convert_info(system._subjacs_info)
            orig_init(self, system, *a, **k)
        __init__._symx = True
        JM.Jacobian.__init__ = __init__
    for name in list(MODULES) + list(extra):
        m = sys.modules.get(name) or importlib.import_module(name)
        for attr, repl in (('coo_matrix', coo_matrix), ('csc_matrix', csc_matrix), ('csr_matrix', csr_matrix), ('issparse', issparse)):
            if hasattr(m, attr):
                setattr(m, attr, repl)


def convert_declared(model):
    """partials declared with a real scipy.sparse value (e.g. AddSubtractComp: sf * sp.eye(n, format='csc')) are replaced by
    the stand-in of the same format, so that they can be multiplied with symbolic vectors; call between setup() and final_setup()"""
    from openmdao.core.component import Component
    n = 0
    for s in model.system_iter(include_self=True, recurse=True):
        if isinstance(s, Component):
            for meta in s._subjacs_info.values():
                v = meta.get('val')
                if sp.issparse(v):
                    cls = {'coo': coo_matrix, 'csc': csc_matrix, 'csr': csr_matrix}.get(v.format)
                    meta['val'] = cls(v) if cls else coo_matrix(v.tocoo())
                    n += 1
    return n


def selftest():
    rng = np.random.default_rng(3)
    errs = []

    def close(a, b):
        a = np.array([[float(v) for v in row] for row in np.atleast_2d(np.asarray(a, dtype=object))])
        return np.allclose(a, np.atleast_2d(np.asarray(b, dtype=float)))
    for trial in range(6):
        m, n, k = rng.integers(2, 6), rng.integers(2, 6), rng.integers(3, 14)
        row, col = rng.integers(0, m, k), rng.integers(0, n, k)
        data = rng.normal(size=k)
        x, w = rng.normal(size=n), rng.normal(size=m)
        for mine, theirs in ((coo_matrix, sp.coo_matrix), (csc_matrix, sp.csc_matrix), (csr_matrix, sp.csr_matrix)):
            A, B = mine((data, (row, col)), shape=(m, n)), theirs((data, (row, col)), shape=(m, n))
            if not close(A.toarray(), B.toarray()):
                errs.append(f'{mine.__name__}.toarray')
            if not close([A @ x], [B @ x]) or not close([A.T @ w], [B.T @ w]):
                errs.append(f'{mine.__name__}.matvec')
            if mine is not coo_matrix:
                Bc = B.copy()
                Bc.sum_duplicates()
                Bc.sort_indices()
                if not (np.array_equal(A.indices, Bc.indices) and np.array_equal(A.indptr, Bc.indptr) and close([A.data], [Bc.data])):
                    errs.append(f'{mine.__name__}.layout')
            if not close(A.tocsc().toarray(), B.toarray()) or not close(A.tocsr().toarray(), B.toarray()) or not close(A.tocoo().toarray(), B.toarray()):
                errs.append(f'{mine.__name__}.convert')
    return sorted(set(errs))
