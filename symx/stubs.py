"""Named stubs that harnesses install in sym/exact mode (never in float mode).  Each stub is part
of the claim of the check that uses it and is listed in that check's STUBS."""
import builtins
import contextlib

import numpy as np

from .values import SR, SI, SC, SB


class _MF(type):
    def __instancecheck__(cls, o):
        return isinstance(o, builtins.float)


class PassFloat(builtins.float, metaclass=_MF):
    """module-global `float` replacement: float(x) is x for proxies; isinstance(x, float) works"""
    def __new__(cls, x=0.0):
        return x if isinstance(x, (SR, SC)) else (x.as_real() if isinstance(x, SI) else builtins.float(x))


class _MI(type):
    def __instancecheck__(cls, o):
        return isinstance(o, builtins.int)


class PassInt(builtins.int, metaclass=_MI):
    def __new__(cls, x=0, *a):
        return x if isinstance(x, SI) else builtins.int(x, *a)


class _MC(type):
    def __instancecheck__(cls, o):
        return isinstance(o, builtins.complex)


class PassComplex(builtins.complex, metaclass=_MC):
    def __new__(cls, re=0.0, im=0.0):
        if isinstance(re, (SR, SC)) or isinstance(im, (SR, SC)):
            return SC.lift(re) + SC.lift(im) * SC(SR.const(0), SR.const(1))
        return builtins.complex(re, im)


def install_float(*modules):
    for m in modules:
        m.float = PassFloat


def install_int(*modules):
    for m in modules:
        m.int = PassInt


class NoRecording:
    """stands in for recording_iteration_stack.Recording (no recorder attached in harnesses)"""
    def __init__(self, *a, **k):
        self.abs = self.rel = None

    def __enter__(self):
        return self

    def __exit__(self, *a):
        return False


def install_lu():
    """scipy.linalg.lu_factor/lu_solve and scipy.sparse.linalg.splu/inv as seen by openmdao.solvers.linear.direct
    -> exact elimination; scipy.sparse constructors in the matrix/jacobian modules -> symx.sparse"""
    from . import linalg, sparse
    import openmdao.solvers.linear.direct as D
    import scipy.linalg
    import scipy.sparse
    import scipy.sparse.linalg
    sparse.install()
    if getattr(getattr(D.scipy, 'linalg', None), '_symx', False):
        return

    class _SL:
        _symx = True

        def __getattr__(self, n):
            return getattr(scipy.linalg, n)
        lu_factor = staticmethod(linalg.lu_factor)
        lu_solve = staticmethod(linalg.lu_solve)

    class _SPL:
        def __getattr__(self, n):
            return getattr(scipy.sparse.linalg, n)
        splu = staticmethod(sparse.splu)
        inv = staticmethod(sparse.inv)

    class _SP:
        def __getattr__(self, n):
            return getattr(scipy.sparse, n)
        linalg = _SPL()
        issparse = staticmethod(sparse.issparse)
        csc_matrix = sparse.csc_matrix

    class _S:
        def __getattr__(self, n):
            return getattr(D_scipy, n)
        linalg = _SL()
        sparse = _SP()
    D_scipy = D.scipy
    D.scipy = _S()
