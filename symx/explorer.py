"""Depth-first path exploration by re-execution, with z3 deciding feasibility and obligations."""
import time
import traceback
from fractions import Fraction
import os

import z3

from .poly import Poly, REG, P0, P1, _rv
from .values import SR, SB, SI, SC, Abort, Concretize, CUR, sb

RLIMIT = 30_000_000


class Undecided(Exception):
    pass


def _mk_solver(rlimit):
    s = z3.Solver()
    s.set('rlimit', rlimit)
    return s


class Explorer:
    def __init__(self, rlimit=RLIMIT, max_paths=20000, wall_s=None):
        self.rlimit = rlimit
        self.max_paths = max_paths
        # budget in CPU seconds of this process (z3 runs in-process): independent of machine load
        self.deadline = (time.process_time() + wall_s) if wall_s else None
        self.pending = []          # list of (prefix decisions, model or None)
        self.queries = 0
        self.solver_s = 0.0
        self.unknown = 0
        # per-path state
        self.cons = []             # z3 constraints of the current path
        self.prefix = []
        self.trace = []
        self.model = None
        self.zero_div = []
        self.atoms_n = 0
        self.realisations = 0
        self.maybe_infeasible = False
        self.declared = {}         # symbol name -> ('R'|'I', SR|SI)
        self.bounds = {}           # var id -> (lo, hi) Fractions, from declared boxes
        self.abstract_ok = 0

    # ------------------------------------------------------------------ solver plumbing
    def _check(self, extra):
        """sat / unsat / unknown of path constraints + extra (list).  Returns (result, model)."""
        self.queries += 1
        t0 = time.time()
        s = _mk_solver(self.rlimit)
        s.add(*self.cons)
        s.add(*extra)
        r = s.check()
        if r == z3.unknown:
            # second opinion: the nonlinear real tactic
            try:
                s2 = z3.Tactic('qfnra-nlsat').solver()
                s2.set('rlimit', self.rlimit)
                s2.add(*self.cons)
                s2.add(*extra)
                r = s2.check()
                s = s2
            except z3.Z3Exception:
                pass
        self.solver_s += time.time() - t0
        if r == z3.sat:
            return 'sat', s.model()
        if r == z3.unsat:
            return 'unsat', None
        self.unknown += 1
        return 'unknown', None

    def _holds_in_model(self, cond):
        if self.model is None:
            return None
        try:
            v = self.model.eval(cond, model_completion=True)
        except z3.Z3Exception:
            return None
        if z3.is_true(v):
            return True
        if z3.is_false(v):
            return False
        return None

    def _timeup(self):
        return self.deadline is not None and time.process_time() > self.deadline

    # ------------------------------------------------------------------ branching
    def decide(self, cond):
        cond = z3.simplify(cond)
        if z3.is_true(cond):
            return True
        if z3.is_false(cond):
            return False
        i = len(self.trace)
        if i < len(self.prefix):
            d = self.prefix[i]
            self.trace.append(d)
            self.cons.append(cond if d else z3.Not(cond))
            if not isinstance(d, bool):
                raise RuntimeError('replay mismatch (branch vs int realisation)')
            if i == len(self.prefix) - 1:
                self._end_of_prefix()
            return d
        if self._timeup():
            raise Undecided('wall-clock budget exhausted')
        side = self._holds_in_model(cond)
        if side is None:
            r, m = self._check([cond])
            if r == 'sat':
                side, self.model = True, m
            elif r == 'unsat':
                side = False
                r2, m2 = self._check([z3.Not(cond)])
                if r2 == 'unsat':
                    raise Abort()
                self.model = m2
                if r2 == 'unknown':
                    self.maybe_infeasible = True
                self.trace.append(False)
                self.cons.append(z3.Not(cond))
                return False
            else:
                side = True
                self.maybe_infeasible = True
        other = z3.Not(cond) if side else cond
        r, m = self._check([other])
        if r != 'unsat':
            self.pending.append((self.trace[:] + [not side], m))
        self.trace.append(side)
        self.cons.append(cond if side else z3.Not(cond))
        return side

    def assume(self, cond, record=None):
        if isinstance(cond, (bool,)):
            if not cond:
                raise Abort()
            return
        cond = sb(cond).t
        cond = z3.simplify(cond)
        if z3.is_true(cond):
            return
        if z3.is_false(cond):
            raise Abort()
        self.cons.append(cond)
        if self._holds_in_model(cond) is True:
            return
        r, m = self._check([])
        if r == 'unsat':
            raise Abort()
        self.model = m
        if r == 'unknown':
            self.maybe_infeasible = True

    def assume_nonzero(self, poly):
        z = poly.z3() != 0
        self.zero_div.append(repr(poly)[:120])
        self.assume(z)

    # ------------------------------------------------------------------ atoms
    def atom(self, kind, args):
        key = (kind,) + tuple(a.key() for a in args)
        vid = REG.atom_key.get(key)
        if vid is None:
            self.atoms_n += 1
            vid = REG.var(f'{kind}!{self.atoms_n}')
            REG.atom_key[key] = vid
            # axioms relating this atom to earlier atoms of the same kind (before registering)
            self._atom_axioms(kind, args, vid)
            REG.atom[vid] = (kind, args)
        return SR(Poly.var(vid))

    def atom_int(self, si):
        key = ('int', si.t.sexpr())
        vid = REG.atom_key.get(key)
        if vid is None:
            self.atoms_n += 1
            vid = REG.var(f'int!{self.atoms_n}')
            REG.atom_key[key] = vid
            REG.atom[vid] = ('opaque', ())
            self.cons.append(REG.z3c[vid] == z3.ToReal(si.t))
            self.model = None
        return SR(Poly.var(vid))

    def _atom_axioms(self, kind, args, vid):
        y = REG.z3c[vid]
        a = args[0].z3()
        ax = []
        if kind == 'sqrt':
            ax += [y >= 0, y * y == a]
            self.assume(args[0] >= 0)
        elif kind == 'exp':
            ax += [y > 0, z3.Implies(a == 0, y == 1), z3.Implies(a < 0, y < 1), z3.Implies(a > 0, y > 1),
                   y >= 1 + a]
            for v2, (k2, a2) in list(REG.atom.items()):
                if k2 == 'exp':
                    y2, b = REG.z3c[v2], a2[0].z3()
                    ax += [z3.Implies(a < b, y < y2), z3.Implies(a > b, y > y2), z3.Implies(a == b, y == y2)]
        elif kind == 'log':
            self.assume(args[0] > 0)
            ax += [z3.Implies(a == 1, y == 0), z3.Implies(a < 1, y < 0), z3.Implies(a > 1, y > 0), y <= a - 1]
            for v2, (k2, a2) in list(REG.atom.items()):
                if k2 == 'log':
                    y2, b = REG.z3c[v2], a2[0].z3()
                    ax += [z3.Implies(a < b, y < y2), z3.Implies(a > b, y > y2), z3.Implies(a == b, y == y2)]
        elif kind in ('sin', 'cos'):
            ax += [y >= -1, y <= 1]
            other = 'cos' if kind == 'sin' else 'sin'
            for v2, (k2, a2) in list(REG.atom.items()):
                if k2 == other and a2[0].key() == args[0].key():
                    y2 = REG.z3c[v2]
                    ax.append(y * y + y2 * y2 == 1)
        elif kind == 'arctan':
            ax += [z3.Implies(a == 0, y == 0), z3.Implies(a > 0, y > 0), z3.Implies(a < 0, y < 0)]
        self.cons.extend(ax)
        if ax:
            self.model = None

    # ------------------------------------------------------------------ integers
    def _end_of_prefix(self):
        self.model = self._prefix_model
        if self.model is None or self._holds_in_model(z3.And(*self.cons)) is not True:
            r, m = self._check([])
            if r == 'unsat':
                raise Abort()
            self.model = m
            if r == 'unknown':
                self.maybe_infeasible = True

    def realise_int(self, si):
        """concretisation point of a symbolic integer: enumerate its feasible values (DFS)."""
        t = z3.simplify(si.t)
        if z3.is_int_value(t):
            return t.as_long()
        i = len(self.trace)
        excl = ()
        if i < len(self.prefix):
            d = self.prefix[i]
            if not isinstance(d, tuple):
                raise RuntimeError('replay mismatch (int realisation vs branch)')
            if d[0] == 'int':
                self.trace.append(d)
                self.cons.append(t == d[1])
                if i == len(self.prefix) - 1:
                    self._end_of_prefix()
                return d[1]
            excl = d[1]                      # ('intne', (v1, v2, ...)) is always last
            for v in excl:
                self.cons.append(t != v)
            self.prefix = self.prefix[:i]
            self._end_of_prefix()
        if self._timeup():
            raise Undecided('wall-clock budget exhausted')
        if self.model is None:
            r, m = self._check([])
            if r == 'unsat':
                raise Abort()
            if r != 'sat':
                raise Undecided('cannot realise integer: path model unavailable')
            self.model = m
        v = self.model.eval(t, model_completion=True).as_long()
        self.realisations += 1
        r, m = self._check([t != v])
        if r == 'sat':
            self.pending.append((self.trace[:] + [('intne', excl + (v,))], m))
        elif r == 'unknown':
            raise Undecided('unknown while enumerating integer domain')
        self.trace.append(('int', v))
        self.cons.append(t == v)
        return v

    # ------------------------------------------------------------------ symbols
    def real(self, name, lo=None, hi=None):
        s = SR.sym(name)
        self.declared[name] = ('R', s)
        if lo is not None and hi is not None:
            self.bounds[REG.byname[name]] = (Fraction(lo), Fraction(hi))
        if lo is not None:
            self.assume(s >= lo)
        if hi is not None:
            self.assume(s <= hi)
        return s

    def integer(self, name, lo=None, hi=None):
        s = SI.sym(name, lo, hi)
        self.declared[name] = ('I', s)
        if lo is not None:
            self.assume(s >= lo)
        if hi is not None:
            self.assume(s <= hi)
        return s

    def boolean(self, name):
        b = SB(z3.Bool(name))
        self.declared[name] = ('B', b)
        return b

    # ------------------------------------------------------------------ margin obligations
    def mono_hull(self, m):
        """interval hull of a monomial over the declared boxes, or None if a factor is unbounded"""
        lo = hi = Fraction(1)
        for v, e in m:
            b = self.bounds.get(v)
            if b is None:
                return None
            cand = [b[0] ** e, b[1] ** e]
            if e % 2 == 0 and b[0] < 0 < b[1]:
                cand.append(Fraction(0))
            vlo, vhi = min(cand), max(cand)
            prods = [lo * vlo, lo * vhi, hi * vlo, hi * vhi]
            lo, hi = min(prods), max(prods)
        return lo, hi

    def abs_bound(self, x):
        """upper bound of |x| over the declared boxes (interval arithmetic), None if unbounded"""
        if not x.d.is_const():
            return None
        k = abs(1 / x.d.const_value())
        tot = Fraction(0)
        for m, c in x.n.t.items():
            h = self.mono_hull(m)
            if h is None:
                return None
            tot += abs(c) * max(abs(h[0]), abs(h[1]))
        return tot * k

    def margin_by_abstraction(self, d, tol):
        """sound sufficient check of |d| <= tol over the declared boxes: every monomial of the
        (polynomial) d is replaced by a fresh real ranging over its interval hull, which turns the
        negated obligation into a linear query; unsat => the obligation holds on every path."""
        if not d.d.is_const():
            return False
        k = 1 / d.d.const_value()
        lin = []
        cons = []
        for i, (m, c) in enumerate(d.n.t.items()):
            if not m:
                lin.append(_rv(c * k))
                continue
            h = self.mono_hull(m)
            if h is None:
                return False
            M = z3.Real(f'mono!{i}')
            cons += [M >= _rv(h[0]), M <= _rv(h[1])]
            lin.append(_rv(c * k) * M)
        tot = z3.Sum(lin) if lin else z3.RealVal(0)
        s = z3.SolverFor('QF_LRA')
        s.add(*cons)
        s.add(z3.Or(tot > _rv(Fraction(tol)), tot < -_rv(Fraction(tol))))
        self.queries += 1
        t0 = time.time()
        r = s.check()
        self.solver_s += time.time() - t0
        if r == z3.unsat:
            self.abstract_ok += 1
            return True
        return False

    # ------------------------------------------------------------------ model -> inputs
    def inputs_from_model(self, model):
        out = {}
        for name, (sort, s) in self.declared.items():
            if sort == 'R':
                if isinstance(s, SR) and s.is_const():
                    c = s.const_value()
                    out[name] = f'{c.numerator}/{c.denominator}'
                    continue
                v = model.eval(REG.z3c[REG.byname[name]], model_completion=True)
                out[name] = _num(v)
            elif sort == 'I':
                v = model.eval(REG.z3c[REG.byname[name]], model_completion=True)
                out[name] = str(v.as_long())
            else:
                v = model.eval(s.t, model_completion=True)
                out[name] = bool(z3.is_true(v))
        return out


def _generic_model(ex):
    """a model of the current path in which as many real symbols as possible take fixed pseudo-random dyadic values inside
    their declared boxes (all of them, else the first half, else none -> None)"""
    import random
    names = [n for n, (sort, sv) in ex.declared.items() if sort == 'R' and not (isinstance(sv, SR) and sv.is_const())]
    if not names:
        return None
    rng = random.Random(len(names) * 7919 + len(ex.cons))
    eqs = []
    for n in names:
        vid = REG.byname[n]
        lo, hi = ex.bounds.get(vid, (Fraction(-3), Fraction(3)))
        lo, hi = max(lo, Fraction(-64)), min(hi, Fraction(64))
        if hi <= lo:
            continue
        k = rng.randint(1, 63)
        val = lo + (hi - lo) * Fraction(k, 64)
        eqs.append(REG.z3c[vid] == z3.RealVal(f'{val.numerator}/{val.denominator}'))
    for sub in (eqs, eqs[:len(eqs) // 2]):
        if not sub:
            continue
        try:
            r, m = ex._check(sub)
        except Exception:
            return None
        if r == 'sat':
            return m
    return None


def _num(v):
    if z3.is_rational_value(v):
        return f'{v.numerator_as_long()}/{v.denominator_as_long()}'
    if z3.is_algebraic_value(v):
        a = v.approx(30)
        return f'~{a.numerator_as_long()}/{a.denominator_as_long()}'
    return f'?{v}'


class PathResult:
    __slots__ = ('trace', 'obligations', 'raised', 'observed', 'model', 'cons')


def explore(fn, rlimit=RLIMIT, max_paths=20000, wall_s=None, on_path=None):
    """Run fn(ex) over all feasible paths.  fn returns a list of (name, SB|bool) obligations (or
    uses ex-bound ctx).  Returns dict with stats and findings."""
    ex = Explorer(rlimit, max_paths, wall_s)
    CUR.ex = ex
    ex.pending.append(([], None))
    stats = dict(paths=0, aborted=0, obligations=0, discharged=0, undecided=0, by_model=0,
                 raised=0, unexplored=0, maybe_infeasible=0)
    findings = []     # dicts: kind ('obligation'|'exception'), name, inputs, trace
    undecided = []
    witnesses = []    # (inputs, observed) of some completed paths
    samples = []
    zero_div = set()
    t0 = time.time()
    try:
        while ex.pending:
            if stats['paths'] + stats['aborted'] >= max_paths or ex._timeup():
                stats['unexplored'] = len(ex.pending)
                break
            prefix, pm = ex.pending.pop()
            # ('intne', v) markers: constraints re-imposed at realisation time
            ex.prefix = prefix
            ex._prefix_model = pm
            ex.trace = []
            ex.cons = []
            ex.model = pm if not prefix else None
            ex.zero_div = []
            ex.atoms_n = 0
            ex.maybe_infeasible = False
            ex.declared = {}
            ex.bounds = {}
            REG.reset_atoms()
            raised = None
            obs = None
            try:
                res = fn(ex)
            except Abort:
                stats['aborted'] += 1
                continue
            except Undecided as e:
                stats['undecided'] += 1
                undecided.append(dict(kind='path', reason=str(e), trace=_tr(ex.trace)))
                continue
            except Concretize as e:
                raise
            except Exception as e:      # exception raised by the code under test
                raised = e
                res = getattr(e, '_symx_partial', None) or ([], {})
            obligations, obs = res if isinstance(res, tuple) else (res, {})
            stats['paths'] += 1
            if ex.maybe_infeasible:
                stats['maybe_infeasible'] += 1
            zero_div.update(ex.zero_div)
            if ex.model is None or ex._holds_in_model(z3.And(*ex.cons) if ex.cons else z3.BoolVal(True)) is not True:
                r, m = ex._check([])
                if r == 'unsat':
                    stats['paths'] -= 1
                    stats['aborted'] += 1
                    continue
                ex.model = m
            if raised is not None:
                stats['raised'] += 1
                tb = ''.join(traceback.format_exception(type(raised), raised, raised.__traceback__)[-6:])
                if ex.model is None:
                    stats['undecided'] += 1
                    undecided.append(dict(kind='exception', reason='path feasibility unknown', exc=repr(raised)[:200]))
                else:
                    findings.append(dict(kind='exception', name=type(raised).__name__, message=str(raised)[:300],
                                         traceback=tb[-2000:], inputs=ex.inputs_from_model(ex.model),
                                         trace=_tr(ex.trace)))
            for ob in obligations:
                name, p = ob[0], ob[1]
                meta = ob[2] if len(ob) > 2 else {}
                stats['obligations'] += 1
                if isinstance(p, (bool,)) or type(p).__name__ == 'bool_':
                    if p:
                        stats['discharged'] += 1
                    elif ex.model is not None:
                        findings.append(dict(kind='obligation', name=name, inputs=ex.inputs_from_model(ex.model),
                                             trace=_tr(ex.trace), meta=meta))
                    else:
                        stats['undecided'] += 1
                    continue
                if meta and meta.get('margin') is not None and not isinstance(p, bool):
                    d_, tol_ = meta['margin']
                    if ex.margin_by_abstraction(d_, tol_):
                        stats['discharged'] += 1
                        stats['by_abstraction'] = stats.get('by_abstraction', 0) + 1
                        continue
                t = z3.simplify(sb(p).t)
                if z3.is_true(t):
                    stats['discharged'] += 1
                    ex.queries += 1          # trivial query (normal form collapsed it)
                    continue
                if ex._holds_in_model(t) is False:
                    stats['by_model'] += 1
                    m = ex.model
                    r = 'sat'
                else:
                    r, m = ex._check([z3.Not(t)])
                if r == 'unsat':
                    stats['discharged'] += 1
                    if len(samples) < 4:
                        samples.append(dict(obligation=name, path=[str(c)[:160] for c in ex.cons[:6]],
                                            goal=str(t)[:300], verdict='unsat'))
                elif r == 'sat':
                    # prefer a robust counterexample if the obligation says how
                    strong = meta.get('strong') if meta else None
                    if strong is not None:
                        r2, m2 = ex._check([sb(strong).t])
                        if r2 == 'sat':
                            m = m2
                    findings.append(dict(kind='obligation', name=name, inputs=ex.inputs_from_model(m),
                                         trace=_tr(ex.trace), goal=str(t)[:300]))
                else:
                    stats['undecided'] += 1
                    undecided.append(dict(kind='obligation', name=name, goal=str(t)[:300]))
            if obs and ex.model is not None and len(witnesses) < 3:
                # the solver's own model sets every unconstrained symbol to 0, which hides most float64-only differences
                # (0 converted to another unit is 0): prefer a model of the same path with pseudo-random dyadic values
                # (opt-in, VERIF_GENERIC_WITNESS=1: float obligations based on finite differences are fragile at generic points -
                # kinks of piecewise interpolants, exact comparisons - so the default replays the solver's own model)
                wm = (_generic_model(ex) if os.environ.get('VERIF_GENERIC_WITNESS') else None) or ex.model
                witnesses.append(dict(inputs=ex.inputs_from_model(wm), observed=_eval_obs(obs, wm)))
            if on_path:
                on_path(ex, stats)
    finally:
        CUR.ex = None
    stats.update(queries=ex.queries, solver_s=round(ex.solver_s, 3), wall_s=round(time.time() - t0, 3),
                 unknown=ex.unknown, realisations=ex.realisations)
    return dict(stats=stats, findings=findings, undecided=undecided, witnesses=witnesses, samples=samples,
                possible_zero_div=sorted(zero_div)[:20])


def _tr(trace):
    return ''.join(('T' if d else 'F') if isinstance(d, bool) else f'[{d[1]}]' for d in trace)


def eval_sr(x, model):
    """value of an SR/SI/SB/number under a z3 model -> float/int/bool"""
    if isinstance(x, SR):
        try:
            return _eval_real(x, model, {})
        except Exception:
            return None
    if isinstance(x, SC):
        return [eval_sr(x.re, model), eval_sr(x.im, model)]
    if isinstance(x, SI):
        return model.eval(x.t, model_completion=True).as_long()
    if isinstance(x, SB):
        return bool(z3.is_true(model.eval(x.t, model_completion=True)))
    if isinstance(x, Fraction):
        return float(x)
    if isinstance(x, (int, float, bool, str)) or x is None:
        return x
    try:
        import numpy as np
        if isinstance(x, np.ndarray):
            return [eval_sr(e, model) for e in x.ravel().tolist()]
        if isinstance(x, (np.floating, np.integer, np.bool_)):
            return x.item()
    except ImportError:
        pass
    if isinstance(x, (list, tuple)):
        return [eval_sr(e, model) for e in x]
    return repr(x)


def _eval_real(x, model, cache):
    """float value of an SR under the model; atoms are evaluated by their real definition
    (exp, log, sqrt, ...) rather than by the value z3 picked for them"""
    import math

    def var(v):
        if v in cache:
            return cache[v]
        a = REG.atom.get(v)
        if a is None or a[0] == 'opaque':
            mv = model.eval(REG.z3c[v], model_completion=True)
            if z3.is_int_value(mv):
                r = float(mv.as_long())
            elif z3.is_rational_value(mv):
                r = mv.numerator_as_long() / mv.denominator_as_long()
            else:
                ap = mv.approx(20)
                r = ap.numerator_as_long() / ap.denominator_as_long()
        else:
            kind, args = a
            av = [_eval_real(t, model, cache) for t in args]
            r = {'exp': math.exp, 'log': math.log, 'sqrt': math.sqrt, 'sin': math.sin, 'cos': math.cos,
                 'arctan': math.atan, 'arctan2': math.atan2}[kind](*av)
        cache[v] = r
        return r

    def poly(p):
        tot = 0.0
        for m, c in p.t.items():
            t = float(c)
            for v, e in m:
                t *= var(v) ** e
            tot += t
        return tot
    return poly(x.n) / poly(x.d)


def _eval_obs(obs, model):
    return {k: eval_sr(v, model) for k, v in obs.items()}
