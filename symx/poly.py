"""Sparse multivariate polynomials over Q (exact), the term language of symx.

A monomial is a tuple of (var_id, exponent) pairs sorted by var_id; a polynomial is a dict
monomial -> Fraction (no zero coefficients).  Variables are registered globally by name; some
variables are *atoms* that stand for an opaque term (exp(t), sqrt(t), ...) whose definition is
kept in the registry so that derivatives (chain rule), evaluation and the z3 side axioms can be
produced.
"""
from fractions import Fraction
import z3

ONE = ()          # the empty monomial


class Registry:
    """name <-> id <-> z3 constant; atoms carry (kind, args)."""

    def __init__(self):
        self.names = []
        self.byname = {}
        self.z3c = []
        self.atom = {}          # vid -> (kind, args tuple of SR)
        self.atom_key = {}      # (kind, key) -> vid
        self.sort = []          # 'R' or 'I'

    def var(self, name, sort='R'):
        vid = self.byname.get(name)
        if vid is None:
            vid = len(self.names)
            self.names.append(name)
            self.byname[name] = vid
            self.z3c.append(z3.Real(name) if sort == 'R' else z3.Int(name))
            self.sort.append(sort)
        return vid

    def reset_atoms(self):
        # atoms are per path: drop definitions, keep ids (names are unique by counter)
        self.atom.clear()
        self.atom_key.clear()


REG = Registry()


def mono_mul(a, b):
    if not a:
        return b
    if not b:
        return a
    out = []
    i = j = 0
    la, lb = len(a), len(b)
    while i < la and j < lb:
        va, ea = a[i]
        vb, eb = b[j]
        if va == vb:
            out.append((va, ea + eb)); i += 1; j += 1
        elif va < vb:
            out.append(a[i]); i += 1
        else:
            out.append(b[j]); j += 1
    if i < la:
        out.extend(a[i:])
    if j < lb:
        out.extend(b[j:])
    return tuple(out)


def mono_div(a, b):
    """a / b or None if b does not divide a."""
    if not b:
        return a
    d = dict(a)
    for v, e in b:
        ea = d.get(v, 0)
        if ea < e:
            return None
        if ea == e:
            del d[v]
        else:
            d[v] = ea - e
    return tuple(sorted(d.items()))


def mono_key(m):
    """graded-lex ordering key (total degree, then exponent vector)."""
    return (sum(e for _, e in m), m)


class Poly:
    __slots__ = ('t', '_z3')

    def __init__(self, t=None):
        self.t = t if t is not None else {}
        self._z3 = None

    # ---- constructors
    @staticmethod
    def const(c):
        c = Fraction(c)
        return Poly({ONE: c}) if c else Poly()

    @staticmethod
    def var(vid):
        return Poly({((vid, 1),): Fraction(1)})

    # ---- predicates
    def is_zero(self):
        return not self.t

    def is_const(self):
        return not self.t or (len(self.t) == 1 and ONE in self.t)

    def const_value(self):
        return self.t.get(ONE, Fraction(0))

    def __eq__(self, o):
        return self.t == o.t

    def __hash__(self):
        return hash(frozenset(self.t.items()))

    def key(self):
        return frozenset(self.t.items())

    def vars(self):
        s = set()
        for m in self.t:
            for v, _ in m:
                s.add(v)
        return s

    # ---- arithmetic
    def add(self, o):
        if not o.t:
            return self
        if not self.t:
            return o
        t = dict(self.t)
        for m, c in o.t.items():
            n = t.get(m)
            if n is None:
                t[m] = c
            else:
                n = n + c
                if n:
                    t[m] = n
                else:
                    del t[m]
        return Poly(t)

    def neg(self):
        return Poly({m: -c for m, c in self.t.items()})

    def sub(self, o):
        if not o.t:
            return self
        t = dict(self.t)
        for m, c in o.t.items():
            n = t.get(m)
            if n is None:
                t[m] = -c
            else:
                n = n - c
                if n:
                    t[m] = n
                else:
                    del t[m]
        return Poly(t)

    def scale(self, c):
        if not c:
            return Poly()
        if c == 1:
            return self
        return Poly({m: k * c for m, k in self.t.items()})

    def mul(self, o):
        a, b = self.t, o.t
        if not a or not b:
            return Poly()
        if len(a) == 1 and ONE in a:
            return o.scale(a[ONE])
        if len(b) == 1 and ONE in b:
            return self.scale(b[ONE])
        t = {}
        for ma, ca in a.items():
            for mb, cb in b.items():
                m = mono_mul(ma, mb)
                c = ca * cb
                n = t.get(m)
                if n is None:
                    t[m] = c
                else:
                    n = n + c
                    if n:
                        t[m] = n
                    else:
                        del t[m]
        return Poly(t)

    def pow(self, k):
        r = Poly.const(1)
        b = self
        while k:
            if k & 1:
                r = r.mul(b)
            k >>= 1
            if k:
                b = b.mul(b)
        return r

    def lead(self):
        m = max(self.t, key=mono_key)
        return m, self.t[m]

    def divexact(self, o):
        """self / o if the division is exact (multivariate long division), else None."""
        if not o.t:
            return None
        if o.is_const():
            return self.scale(1 / o.const_value())
        if not self.t:
            return self
        if len(o.t) == 1:
            (mo, co), = o.t.items()
            t = {}
            for m, c in self.t.items():
                q = mono_div(m, mo)
                if q is None:
                    return None
                t[q] = c / co
            return Poly(t)
        lm, lc = o.lead()
        rem = dict(self.t)
        quo = {}
        budget = 4 * (len(self.t) + 4)
        while rem:
            budget -= 1
            if budget < 0:
                return None
            m = max(rem, key=mono_key)
            q = mono_div(m, lm)
            if q is None:
                return None
            c = rem[m] / lc
            quo[q] = c
            for mo, co in o.t.items():
                mm = mono_mul(q, mo)
                n = rem.get(mm, 0) - c * co
                if n:
                    rem[mm] = n
                else:
                    rem.pop(mm, None)
        return Poly(quo)

    def diff(self, vid):
        t = {}
        for m, c in self.t.items():
            for i, (v, e) in enumerate(m):
                if v == vid:
                    mm = m[:i] + (((v, e - 1),) if e > 1 else ()) + m[i + 1:]
                    t[mm] = t.get(mm, 0) + c * e
                    break
        return Poly({m: c for m, c in t.items() if c})

    def evaluate(self, env):
        """env: vid -> number (Fraction or float)."""
        s = 0
        for m, c in self.t.items():
            p = c
            for v, e in m:
                p = p * env[v] ** e
            s = s + p
        return s

    def subs(self, env):
        """partial substitution vid -> Poly."""
        out = Poly()
        for m, c in self.t.items():
            p = Poly.const(c)
            for v, e in m:
                if v in env:
                    p = p.mul(env[v].pow(e))
                else:
                    p = p.mul(Poly({((v, e),): Fraction(1)}))
            out = out.add(p)
        return out

    def degree(self):
        return max((sum(e for _, e in m) for m in self.t), default=0)

    # ---- z3
    def z3(self):
        if self._z3 is None:
            if not self.t:
                self._z3 = z3.RealVal(0)
            else:
                terms = []
                for m, c in sorted(self.t.items(), key=lambda kv: mono_key(kv[0])):
                    fs = []
                    for v, e in m:
                        zc = REG.z3c[v]
                        if REG.sort[v] == 'I':
                            zc = z3.ToReal(zc)
                        fs.extend([zc] * e)
                    if not fs:
                        terms.append(_rv(c))
                    else:
                        p = fs[0]
                        for f in fs[1:]:
                            p = p * f
                        terms.append(p if c == 1 else _rv(c) * p)
                self._z3 = terms[0] if len(terms) == 1 else z3.Sum(terms)
        return self._z3

    def __repr__(self):
        if not self.t:
            return '0'
        out = []
        for m, c in sorted(self.t.items(), key=lambda kv: mono_key(kv[0])):
            ms = '*'.join(REG.names[v] + (f'^{e}' if e > 1 else '') for v, e in m)
            out.append(f'{c}' + (f'*{ms}' if ms else '') if (c != 1 or not ms) else ms)
        return ' + '.join(out)


def _rv(c):
    c = Fraction(c)
    if c.denominator == 1:
        return z3.RealVal(c.numerator)
    return z3.RealVal(f'{c.numerator}/{c.denominator}')


P0 = Poly()
P1 = Poly.const(1)
