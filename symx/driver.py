"""./check <ID> [--tier quick|thorough] [--replay file] : orchestrates workers, replays
counterexamples on the real float code, writes evidence, prints the verdict lines."""
import argparse
import concurrent.futures as cf
import hashlib
import importlib
import json
import os
import re
import subprocess
import sys
import tempfile
import time

HERE = os.path.dirname(os.path.dirname(os.path.abspath(__file__)))
REPO = os.environ.get('VERIF_REPO', '/repo')
EXIT_OK, EXIT_VIOLATION, EXIT_HARNESS = 0, 1, 3


def _pypath(env):
    # VERIF_REPO (default /repo) may point at a scratch worktree carrying a seeded change: its openmdao wins
    parts = [HERE] + ([REPO] if REPO != '/repo' else []) + [env.get('PYTHONPATH', '')]
    return os.pathsep.join(p for p in parts if p)


EVID = os.environ.get('VERIF_EVIDENCE_DIR') or os.path.join(HERE, 'evidence' if REPO == '/repo' else '.scratch/evidence_alt')
REPLAYS = os.path.join(HERE, 'replays') if REPO == '/repo' else os.path.join(EVID, 'replays')


_PALETTE = ['0', '1', '-1', '1/2', '-1/2', '2', '-2', '3', '1/3', '-3/2', '5/4', '7', '-5', '1/10', '9/10']


def concretise_search(base, want, kind, ntry=40):
    """The solver's model of a counterexample can be unreal when the path uses abstracted functions
    (exp/log/sqrt atoms constrained only by instantiated axioms) or inexact constants.  Before giving up on
    such a candidate, look for a *real* witness of the same failed obligation: concrete rational inputs are
    drawn around the model (same booleans, numbers from the model or a small palette) and each is run on the
    unmodified float code.  Only an input that makes the real code fail the same obligation is reported."""
    import random
    rng = random.Random(hashlib.sha1((want + json.dumps(base['inputs'], sort_keys=True)).encode()).hexdigest())
    jobs = []
    for t in range(ntry):
        inp = {}
        for k, v in base['inputs'].items():
            if isinstance(v, str) and '/' in v and not isinstance(v, bool):
                r = rng.random()
                inp[k] = v.lstrip('~?') if r < 0.25 else rng.choice(_PALETTE)
            else:
                inp[k] = v
        jobs.append(dict(base, inputs=inp, mode='float'))
    res = run_batch(jobs, 900)
    for j, r in zip(jobs, res):
        if not r.get('ok') or 'unmet' in r:
            continue
        if kind == 'exception':
            if (r.get('raised') or {}).get('name') == want:
                return j['inputs'], r.get('raised')
            continue
        for n, okv, meta in r.get('obligations', []):
            if n == want and not okv:
                return j['inputs'], meta
    return None, None


def run_job(job, kill_after):
    fd, outp = tempfile.mkstemp(prefix='symx_out_', suffix='.json')
    os.close(fd)
    fd, jobp = tempfile.mkstemp(prefix='symx_job_', suffix='.json')
    with os.fdopen(fd, 'w') as f:
        json.dump(job, f)
    env = dict(os.environ)
    env['PYTHONPATH'] = _pypath(env)
    env['OPENMDAO_REPORTS'] = '0'
    env['PYTHONDONTWRITEBYTECODE'] = '1'
    env.pop('OPENMDAO_NO_RELEVANCE', None)
    t0 = time.time()
    try:
        p = subprocess.run([sys.executable, '-m', 'symx.worker', outp, jobp], env=env, cwd=HERE,
                           stdout=subprocess.PIPE, stderr=subprocess.STDOUT, timeout=kill_after)
        try:
            res = json.load(open(outp))
        except Exception:
            res = dict(ok=False, error='worker produced no result: ' + p.stdout.decode(errors='replace')[-3000:],
                       error_type='WorkerCrash')
        res['stdout'] = p.stdout.decode(errors='replace')[-1500:]
    except subprocess.TimeoutExpired:
        res = dict(ok=False, error=f'worker killed after {kill_after}s (wall-clock backstop)', error_type='Timeout')
    finally:
        for f in (outp, jobp):
            try:
                os.unlink(f)
            except OSError:
                pass
    res['job'] = {k: job.get(k) for k in ('check', 'fn', 'params', 'mode')}
    res['proc_wall_s'] = round(time.time() - t0, 2)
    return res


def run_batch(jobs, kill_after):
    """several jobs in one worker process (amortises interpreter + import cost); returns results in order"""
    fd, outp = tempfile.mkstemp(prefix='symx_out_', suffix='.json')
    os.close(fd)
    os.unlink(outp)
    fd, jobp = tempfile.mkstemp(prefix='symx_job_', suffix='.json')
    with os.fdopen(fd, 'w') as f:
        json.dump(dict(batch=jobs), f)
    env = dict(os.environ)
    env['PYTHONPATH'] = _pypath(env)
    env['OPENMDAO_REPORTS'] = '0'
    env['PYTHONDONTWRITEBYTECODE'] = '1'
    env.pop('OPENMDAO_NO_RELEVANCE', None)
    note = None
    out = b''
    try:
        p = subprocess.run([sys.executable, '-m', 'symx.worker', outp, jobp], env=env, cwd=HERE,
                           stdout=subprocess.PIPE, stderr=subprocess.STDOUT, timeout=kill_after)
        out = p.stdout
    except subprocess.TimeoutExpired:
        note = f'worker killed after {kill_after}s (wall-clock backstop)'
    try:
        results = json.load(open(outp))
    except Exception:
        results = []
    for f in (outp, jobp, outp + '.tmp'):
        try:
            os.unlink(f)
        except OSError:
            pass
    for i, j in enumerate(jobs):
        if i >= len(results):
            results.append(dict(ok=False, error=note or ('worker crashed: ' + out.decode(errors='replace')[-3000:]),
                                error_type='Timeout' if note else 'WorkerCrash'))
        results[i]['job'] = {k: j.get(k) for k in ('check', 'fn', 'params', 'mode')}
    return results


def load_known():
    p = os.path.join(HERE, 'known_findings.json')
    if not os.path.exists(p):
        return []
    return json.load(open(p)).get('findings', [])


def match_known(known, prop, fn, params, name):
    for k in known:
        if k.get('property') != prop or k.get('harness') != fn:
            continue
        if not re.fullmatch(k.get('obligation', '.*'), name):
            continue
        sub = k.get('params') or {}
        if all(params.get(a) == b for a, b in sub.items()):
            return k
    return None


def file_hashes(functions):
    files = sorted({f for f, _ in functions})
    out = {}
    for f in files:
        try:
            h = subprocess.run(['git', '-C', REPO, 'hash-object', f], stdout=subprocess.PIPE, timeout=20).stdout.decode().strip()
        except Exception:
            h = '?'
        out[f] = h[:12]
    return out


def main(argv=None):
    ap = argparse.ArgumentParser()
    ap.add_argument('check')
    ap.add_argument('--tier', default=os.environ.get('VERIF_TIER', 'quick'))
    ap.add_argument('--replay')
    ap.add_argument('--only', help='regex on harness fn name')
    ap.add_argument('--jobs', type=int, default=int(os.environ.get('VERIF_JOBS', '16')))
    ap.add_argument('--verbose', '-v', action='store_true')
    a = ap.parse_args(argv)
    seed = int(os.environ.get('VERIF_SEED', '20260921'))
    tier = a.tier if a.tier in ('quick', 'thorough') else 'quick'
    sys.path.insert(0, HERE)
    prop = a.check
    t_start = time.time()
    mod = importlib.import_module('checks.' + prop)

    if a.replay:
        return do_replay(prop, mod, a.replay)

    jobs = mod.harnesses(tier, seed)
    if a.only:
        jobs = [j for j in jobs if re.search(a.only, j['fn'] + ':' + json.dumps(j.get('params', {})))]
    for j in jobs:
        j.setdefault('params', {})
        j['check'] = prop
        j['mode'] = 'sym'
        j.setdefault('wall_s', 300 if tier == 'quick' else 1500)
    known = load_known()
    results = []
    nb = min(len(jobs), 2 * a.jobs) or 1
    batches = [jobs[i::nb] for i in range(nb)]
    with cf.ThreadPoolExecutor(max_workers=a.jobs) as pool:
        # each job's wall_s is a CPU-second budget enforced inside the worker; the wall-clock kill is only a
        # backstop against a hung process and is generous so that a loaded machine does not trip it
        futs = [pool.submit(run_batch, b, 4 * sum(j['wall_s'] for j in b) + 600) for b in batches]
        for f in cf.as_completed(futs):
            results.extend(f.result())
    results.sort(key=lambda r: (r['job']['fn'], json.dumps(r['job']['params'], sort_keys=True)))

    # ---------------- aggregate
    tot = dict(paths=0, queries=0, obligations=0, discharged=0, undecided=0, solver_s=0.0, raised=0, aborted=0,
               unexplored=0, realisations=0, by_model=0, unknown=0, maybe_infeasible=0)
    harness_errors = []
    vacuous = []
    candidates = []
    witnesses = []
    functions = set()
    samples = []
    zero_div = set()
    per_harness = []
    for r in results:
        jd = r['job']
        tag = jd['fn'] + json.dumps(jd['params'], sort_keys=True)
        if not r.get('ok') or 'error' in r:
            harness_errors.append(dict(harness=tag, error_type=r.get('error_type'), error=(r.get('error') or '')[-1500:]))
            continue
        if 'unmet' in r:
            harness_errors.append(dict(harness=tag, error_type='Unmet', error=r['unmet']))
            continue
        st = r['stats']
        for k in tot:
            tot[k] += st.get(k, 0)
        if st['paths'] < 1 or st['obligations'] + st['raised'] < 1:
            vacuous.append(tag)
        for f in r['findings']:
            candidates.append((jd, f))
        for w in r['witnesses']:
            witnesses.append((jd, w))
        functions.update(tuple(x) for x in r.get('functions', []))
        for s in r.get('samples', [])[:1]:
            s = dict(s)
            s['harness'] = tag
            samples.append(s)
        zero_div.update(r.get('possible_zero_div', []))
        per_harness.append(dict(harness=tag, paths=st['paths'], obligations=st['obligations'], discharged=st['discharged'],
                                undecided=st['undecided'] + st['unexplored'], queries=st['queries'], solver_s=st['solver_s'],
                                wall_s=st['wall_s'], findings=len(r['findings'])))
        if a.verbose:
            print('  ', per_harness[-1], file=sys.stderr)

    # ---------------- replay candidates (dedupe by harness fn+params+obligation)
    seen = {}
    for jd, f in candidates:
        key = (jd['fn'], json.dumps(jd['params'], sort_keys=True), f['kind'], f['name'])
        seen.setdefault(key, (jd, f))
    cand = list(seen.values())
    # replay order: one candidate per harness job in turn, so that a change that breaks many obligations of one job in the
    # symbolic domain cannot crowd out the job whose failure also reproduces in float64
    groups = {}
    for item in cand:
        groups.setdefault((item[0]['fn'], json.dumps(item[0]['params'], sort_keys=True)), []).append(item)
    cand = []
    while any(groups.values()):
        for k in list(groups):
            if groups[k]:
                cand.append(groups[k].pop(0))
    max_replays = 60
    confirmed, real_only, encoding_bad, unreplayed = [], [], [], []
    os.makedirs(REPLAYS, exist_ok=True)

    def replay_one(item):
        jd, f = item
        base = dict(check=prop, fn=jd['fn'], params=jd['params'], inputs=f['inputs'])
        approx = any(isinstance(v, str) and v[:1] in '~?' for v in f['inputs'].values())
        re_ = run_job(dict(base, mode='exact', profile=False, wall_s=120), 900)
        rf_ = run_job(dict(base, mode='float'), 900)
        return item, approx, re_, rf_
    nsearch = [0]
    with cf.ThreadPoolExecutor(max_workers=a.jobs) as pool:
        for (jd, f), approx, rex, rfl in pool.map(replay_one, cand[:max_replays]):
            want = f['name']
            ex_ok = None
            if rex.get('ok') and 'stats' in rex:
                ex_ok = any(g['kind'] == f['kind'] and g['name'] == want for g in rex['findings'])
            fl_ok = False
            detail = {}
            if rfl.get('ok'):
                if f['kind'] == 'exception':
                    fl_ok = rfl.get('raised', {}).get('name') == want
                    detail = rfl.get('raised') or {}
                else:
                    for n, okv, meta in rfl.get('obligations', []):
                        if n == want and not okv:
                            fl_ok = True
                            detail = meta
                    if not fl_ok and rfl.get('raised') and not any(n == want for n, _, _ in rfl.get('obligations', [])):
                        # the float run died before reaching the obligation: report the crash itself
                        detail = rfl['raised']
            if not fl_ok and not ex_ok and nsearch[0] < 8:
                nsearch[0] += 1
                alt, meta2 = concretise_search(dict(check=prop, fn=jd['fn'], params=jd['params'], inputs=f['inputs']), want, f['kind'])
                if alt is not None:
                    f = dict(f, inputs=alt, solver_model=f['inputs'])
                    fl_ok, detail = True, meta2 or {}
            rec = dict(property=prop, harness=jd['fn'], params=jd['params'], kind=f['kind'], obligation=want,
                       inputs=f['inputs'], solver_model=f.get('solver_model'), message=f.get('message'), goal=f.get('goal'), trace=f.get('trace'),
                       float_detail=detail, exact_reproduced=ex_ok, float_reproduced=fl_ok,
                       traceback=f.get('traceback'))
            if fl_ok:
                confirmed.append(rec)
            elif ex_ok or (ex_ok is None and approx):
                real_only.append(rec)
            elif approx:
                real_only.append(rec)
            else:
                encoding_bad.append(rec)
    unreplayed = cand[max_replays:]

    # ---------------- witness validation (symbolic result at a model vs real float run)
    # Each chosen witness is one solver model of a completed path, re-run through the real code in float64.  A float run that
    # fails an obligation (or raises) at such a model is a counterexample on the real code and is reported as a violation: this
    # is how behaviour that only exists for float64 arrays (dtype tests, NumPy strictness) is reached.  A float run that merely
    # observes other values than the symbolic run is a mistake of the machinery (witness mismatch -> inconclusive).
    nwit = int(os.environ.get('VERIF_NWIT') or (100 if tier == 'quick' else 200))      # VERIF_NWIT: replay more witnesses
    # one witness per harness job first (round robin), then more of each
    wgroups = {}
    for item in witnesses:
        wgroups.setdefault((item[0]['fn'], json.dumps(item[0]['params'], sort_keys=True)), []).append(item)
    chosen = []
    while any(wgroups.values()) and len(chosen) < nwit:
        for k in list(wgroups):
            if wgroups[k] and len(chosen) < nwit:
                g = wgroups[k]
                chosen.append(g.pop(len(g) // 2))
    validated, wit_bad = 0, []

    def wit_one(item):
        jd, w = item
        r = run_job(dict(check=prop, fn=jd['fn'], params=jd['params'], inputs=w['inputs'], mode='float'), 900)
        return item, r
    with cf.ThreadPoolExecutor(max_workers=a.jobs) as pool:
        for (jd, w), r in pool.map(wit_one, chosen):
            if not r.get('ok') or 'unmet' in r or any(isinstance(v, str) and v[:1] in '~?' for v in w['inputs'].values()):
                continue
            failed = [(n, meta) for n, okv, meta in r.get('obligations', []) if not okv]
            if r.get('raised') or failed:
                kind = 'exception' if r.get('raised') else 'obligation'
                name = r['raised'].get('name') if r.get('raised') else failed[0][0]
                key = (jd['fn'], json.dumps(jd['params'], sort_keys=True), kind, name)
                if not any((c['harness'], json.dumps(c['params'], sort_keys=True), c['kind'], c['obligation']) == key for c in confirmed):
                    confirmed.append(dict(property=prop, harness=jd['fn'], params=jd['params'], kind=kind, obligation=name,
                                          inputs=w['inputs'], solver_model=None, message=(r.get('raised') or {}).get('message'), goal=None,
                                          trace=None, float_detail=(r.get('raised') or failed[0][1]), exact_reproduced=None,
                                          float_reproduced=True, traceback=(r.get('raised') or {}).get('traceback'),
                                          found_by='float64 replay of a path witness (the symbolic run of this path discharged the obligation)'))
                continue
            bad = _cmp_obs(w['observed'], r.get('observed', {}))
            failed_obl = []
            if bad or failed_obl:
                wit_bad.append(dict(harness=jd['fn'], params=jd['params'], inputs=w['inputs'], mismatch=bad[:5],
                                    failed_float_obligations=failed_obl[:5]))
            else:
                validated += 1

    # ---------------- verdict
    out_lines = []
    violations = 0
    known_hits = []
    for rec in confirmed:
        k = match_known(known, prop, rec['harness'], rec['params'], rec['obligation'])
        if k is not None:
            known_hits.append((k, rec))
            continue
        violations += 1
        blob = json.dumps(rec, sort_keys=True, default=str)
        path = os.path.join(REPLAYS, f"{prop}-{hashlib.sha1(blob.encode()).hexdigest()[:10]}.json")
        with open(path, 'w') as fo:
            fo.write(blob)
        out_lines.append(f'VIOLATION property={prop} replay={path}')
        out_lines.append(f"  harness={rec['harness']} params={json.dumps(rec['params'], sort_keys=True)} "
                         f"obligation={rec['obligation']} inputs={json.dumps(rec['inputs'])[:400]} detail={json.dumps(rec['float_detail'], default=str)[:300]}")
    printed = set()
    for k, rec in known_hits:
        if id(k) not in printed:
            printed.add(id(k))
            out_lines.append(f"KNOWN-FINDING: property={prop} {k.get('what', '')}")

    undecided_total = tot['undecided'] + tot['unexplored'] + len(unreplayed)
    inconclusive = bool(harness_errors or vacuous or encoding_bad or wit_bad or undecided_total)
    wall = round(time.time() - t_start, 2)

    meta = {k: getattr(mod, k, None) for k in ('BOUNDS', 'STUBS', 'ASSUMPTIONS', 'OUTSIDE', 'LEVEL', 'EXPLANATION')}
    level = meta['LEVEL'] or 'model_checking'
    from symx import npstub
    cov = dict(states=max(tot['paths'], 0), transitions=tot['queries'],
               traces_validated_against_impl=validated, samples=samples[:6] or [dict(note='no sample recorded')],
               obligations=tot['obligations'], discharged=tot['discharged'], undecided=undecided_total,
               queries=tot['queries'], solver_s=round(tot['solver_s'], 2), paths_raising=tot['raised'],
               infeasible_paths_pruned=tot['aborted'], decided_by_path_model=tot['by_model'],
               realisations=tot['realisations'], witness_paths=tot['paths'],
               harnesses=len(jobs), per_harness=per_harness,
               functions_encoded=[f'{f}:{q}' for f, q in sorted(functions)],
               source_blobs=file_hashes(functions),
               bounds=meta['BOUNDS'], stubs=(meta['STUBS'] or []) + ['np proxy: ' + s for s in npstub.STUBS],
               outside_claim=meta['OUTSIDE'], possible_zero_div=sorted(zero_div)[:20],
               exhaustive=False,
               explanation=(meta['EXPLANATION'] or '') + ' Structures (sizes, programs, option sets) are enumerated/sampled, '
               'not quantified; numeric data are quantified over all reals by the solver; IEEE round-off is outside the claim.',
               counterexamples_confirmed=len(confirmed), known_findings_hit=len(known_hits),
               real_only=[dict(harness=r['harness'], obligation=r['obligation']) for r in real_only][:10],
               harness_errors=harness_errors[:10], vacuous=vacuous[:10],
               encoding_mismatch=[dict(harness=r['harness'], obligation=r['obligation'], inputs=r['inputs']) for r in encoding_bad][:10],
               witness_mismatch=wit_bad[:5])
    if cov['states'] < 1:
        cov['states'] = 0
    ev = dict(property_id=prop, tier=tier, seed=seed, level=level, coverage=cov,
              assumptions=(meta['ASSUMPTIONS'] or []), wall_s=wall, violations=violations)
    if level == 'model_checking' and (cov['states'] < 1 or cov['transitions'] < 1):
        # keep the file schema-valid even for a broken run
        cov['evaluations'] = max(1, len(jobs))
        cov['distinct_nontrivial'] = 2
    # a filtered run (--only) is a debugging aid: its evidence goes to .scratch so that evidence/ always describes a complete tier
    evid_dir = EVID if not a.only else os.path.join(HERE, '.scratch', 'evidence_partial')
    os.makedirs(evid_dir, exist_ok=True)
    with open(os.path.join(evid_dir, prop + '.json'), 'w') as fo:
        json.dump(ev, fo, indent=1, default=str)

    for ln in out_lines:
        print(ln)
    print(f"{prop} tier={tier} harnesses={len(jobs)} paths={tot['paths']} obligations={tot['obligations']} "
          f"discharged={tot['discharged']} undecided={undecided_total} queries={tot['queries']} solver_s={tot['solver_s']:.1f} "
          f"validated={validated} wall_s={wall}")
    if violations:
        return EXIT_VIOLATION
    if inconclusive:
        print(f'INCONCLUSIVE property={prop} harness_errors={len(harness_errors)} vacuous={len(vacuous)} '
              f'encoding_mismatch={len(encoding_bad)} witness_mismatch={len(wit_bad)} undecided={undecided_total}')
        for h in harness_errors[:5]:
            print('  harness error:', h['harness'], h['error_type'], (h['error'] or '').strip().splitlines()[-1:] )
        for r in encoding_bad[:3]:
            print('  encoding mismatch:', r['harness'], r['obligation'], json.dumps(r['inputs'])[:300])
        for w in wit_bad[:3]:
            print('  witness mismatch:', json.dumps(w, default=str)[:600])
        return EXIT_HARNESS
    return EXIT_OK


def _cmp_obs(sym_obs, flt_obs, rtol=1e-6):
    bad = []

    def walk(k, a, b):
        if isinstance(a, list) and isinstance(b, list):
            if len(a) != len(b):
                bad.append((k, 'len', len(a), len(b)))
                return
            for i, (x, y) in enumerate(zip(a, b)):
                walk(f'{k}[{i}]', x, y)
        elif isinstance(a, (int, float)) and isinstance(b, (int, float)) and not isinstance(a, bool):
            if not abs(a - b) <= rtol * (1 + abs(b)):
                bad.append((k, a, b))
        elif a is None or b is None:
            return
        elif a != b:
            bad.append((k, a, b))
    for k, v in sym_obs.items():
        if k in flt_obs:
            walk(k, v, flt_obs[k])
    return bad


def do_replay(prop, mod, path):
    rec = json.load(open(path))
    r = run_job(dict(check=prop, fn=rec['harness'], params=rec['params'], inputs=rec['inputs'], mode='float'), 600)
    hit = False
    if rec['kind'] == 'exception':
        hit = r.get('raised', {}).get('name') == rec['obligation']
    else:
        hit = any(n == rec['obligation'] and not okv for n, okv, _ in r.get('obligations', []))
    print(json.dumps(dict(reproduced=hit, raised=r.get('raised'), failed=[(n, m) for n, okv, m in r.get('obligations', []) if not okv][:10]),
                     indent=1, default=str))
    if hit:
        print(f'VIOLATION property={prop} replay={path}')
        return EXIT_VIOLATION
    return EXIT_OK


if __name__ == '__main__':
    sys.exit(main())
