"""Runs ONE harness of one check in one mode, in its own interpreter; prints a JSON result.

usage: python -m symx.worker <out.json> <job.json>
job = {check, fn, params, mode: sym|exact|float, inputs?, rlimit?, max_paths?, wall_s?, profile?}
"""
import importlib
import json
import os
import shutil
import sys
import tempfile
import time
import traceback
import warnings


def _profile_collector(found):
    root = os.environ.get('VERIF_REPO', '/repo') + '/'

    def prof(frame, event, arg):
        if event == 'call':
            co = frame.f_code
            fn = co.co_filename
            if fn.startswith(root) and '/openmdao/' in fn:
                found.add((fn[len(root):], co.co_qualname))
    return prof


def main():
    out_path, job_path = sys.argv[1], sys.argv[2]
    job = json.load(open(job_path))
    os.environ['OPENMDAO_REPORTS'] = '0'
    scratch = tempfile.mkdtemp(prefix='symx_')
    os.chdir(scratch)
    warnings.filterwarnings('ignore')
    try:
        if 'batch' in job:
            results = []
            for j in job['batch']:
                results.append(run_one(j))
                with open(out_path + '.tmp', 'w') as f:
                    json.dump(results, f, default=str)
                os.replace(out_path + '.tmp', out_path)
        else:
            res = run_one(job)
            with open(out_path, 'w') as f:
                json.dump(res, f, default=str)
    finally:
        os.chdir('/')
        shutil.rmtree(scratch, ignore_errors=True)


def run_one(job):
    res = dict(job={k: job[k] for k in ('check', 'fn', 'params', 'mode')}, ok=False)
    t0 = time.time()
    # hard backstop: a z3 nonlinear query can ignore rlimit/timeout; the CPU budget is only checked between queries.
    # z3 releases the GIL, so this timer still fires and ends the worker; the driver then counts the job as undecided.
    import threading
    dog = threading.Timer(3 * float(job.get('wall_s') or 300) + 120, lambda: os._exit(17))
    dog.daemon = True
    dog.start()
    try:
        return _run_one(job, res, t0)
    finally:
        dog.cancel()


def _run_one(job, res, t0):
    try:
        mod = importlib.import_module('checks.' + job['check'])
        fn = getattr(mod, job['fn'])
        params = job.get('params') or {}
        mode = job['mode']
        from symx.ctx import Ctx, Unmet
        if mode in ('sym', 'exact'):
            from symx import npstub
            from symx.explorer import explore
            from symx.values import Concretize
            import openmdao.api  # noqa: F401  make sure the core modules are loaded before patching
            npstub.patch_all()
            found = set()
            state = dict(first=bool(job.get('profile', True)))

            def run(ex):
                ctx = Ctx(mode, ex, job.get('inputs'))
                npstub.patch_all()
                if state['first']:
                    state['first'] = False
                    sys.setprofile(_profile_collector(found))
                    try:
                        fn(ctx, **params)
                    except BaseException as e:
                        sys.setprofile(None)
                        if isinstance(e, Exception) and not isinstance(e, (Concretize, Unmet)):
                            e._symx_partial = ctx.finish()
                        raise
                    finally:
                        sys.setprofile(None)
                else:
                    try:
                        fn(ctx, **params)
                    except Exception as e:
                        if not isinstance(e, (Concretize, Unmet)):
                            e._symx_partial = ctx.finish()
                        raise
                res.setdefault('notes', {}).update(ctx.notes)
                return ctx.finish()
            try:
                r = explore(run, rlimit=job.get('rlimit', 30_000_000), max_paths=job.get('max_paths', 5000),
                            wall_s=job.get('wall_s'))
                res.update(r)
                res['functions'] = sorted(found)
                res['ok'] = True
            except Unmet as e:
                res['unmet'] = str(e)
                res['ok'] = True
        else:
            ctx = Ctx('float', None, job.get('inputs'))
            raised = None
            try:
                fn(ctx, **params)
            except Unmet as e:
                res['unmet'] = str(e)
            except Exception as e:
                raised = e
            obs = {}
            from symx.explorer import eval_sr
            for k, v in ctx.observed.items():
                obs[k] = eval_sr(v, None)
            res['obligations'] = [[n, bool(p), _js(m)] for n, p, m in ctx.obligations]
            res['observed'] = obs
            if raised is not None:
                res['raised'] = dict(name=type(raised).__name__, message=str(raised)[:300],
                                     traceback=''.join(traceback.format_exception(type(raised), raised, raised.__traceback__)[-6:])[-2000:])
            res['ok'] = True
    except BaseException as e:
        res['error'] = ''.join(traceback.format_exception(type(e), e, e.__traceback__))[-4000:]
        res['error_type'] = type(e).__name__
    res['wall_s'] = round(time.time() - t0, 3)
    return res


def _js(m):
    return {k: (v if isinstance(v, (int, float, str, bool, list, type(None))) else repr(v)[:200]) for k, v in (m or {}).items()
            if k not in ('strong', 'margin')}


if __name__ == '__main__':
    main()
