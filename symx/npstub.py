"""Object-array container OA and the `np` proxy substituted into openmdao.* modules.

The proxy forwards to NumPy except for allocation (float/complex/default dtype -> object OA) and
for the functions whose C implementation cannot carry Python objects.  Every override is listed
in STUBS and self-tested against real NumPy on concrete data (selftest())."""
import builtins
import math
import sys
from fractions import Fraction

import numpy as np

from .values import SR, SB, SI, SC, Concretize, sb
from .poly import P0

_np = np


class OA(np.ndarray):
    """ndarray(dtype=object) whose .real is a writable alias of itself."""

    @property
    def real(self):
        if self.dtype == object:
            if self.size and any(isinstance(x, SC) for x in self.ravel()):
                return _RealView(self)
            return self
        return np.ndarray.real.__get__(self)

    @real.setter
    def real(self, v):
        self[...] = v

    @property
    def imag(self):
        if self.dtype == object:
            out = np.empty(self.shape, dtype=object)
            flat = out.ravel()
            for i, x in enumerate(self.ravel()):
                flat[i] = x.imag if isinstance(x, (SC, complex)) else 0
            v = out.view(_ImagView)
            v._base = self
            return v
        return np.ndarray.imag.__get__(self)

    def __setitem__(self, key, value):
        # a float array refuses an array (even of one element) for a single element; an object array would silently store it
        if self.dtype == object and isinstance(value, np.ndarray) and value.ndim > 0 and not isinstance(key, (slice, np.ndarray, list)):
            # only a key made of integers alone addresses an element; `a[..., 0] = array([v])` assigns to a 0-d view and is accepted
            ks = key if isinstance(key, tuple) else (key,)
            single = len(ks) == self.ndim and all(isinstance(k, (int, np.integer)) and not isinstance(k, bool) for k in ks)
            if single:
                raise ValueError('setting an array element with a sequence.')
        np.ndarray.__setitem__(self, key, value)

    def astype(self, dtype, *a, **k):
        if self.dtype == object:
            try:
                kind = np.dtype(dtype).kind
            except TypeError:
                kind = 'O'
            if kind == 'f':
                if any(isinstance(x, SC) for x in self.ravel()):
                    return _map(lambda x: x.real if isinstance(x, SC) else x, self)
                return self.copy()
            if kind == 'c':
                return self.copy()
            if kind == 'b':
                return np.array([bool(x != 0) if isinstance(x, (SR, SI, SC)) else bool(x) for x in self.ravel()],
                                dtype=bool).reshape(self.shape)
            if kind in 'iu':
                return np.array([_concrete(x, kind) for x in self.ravel()], dtype=dtype).reshape(self.shape)
        return np.ndarray.astype(self, dtype, *a, **k)

    def __array_finalize__(self, obj):
        pass


class _ImagView(OA):
    """the imaginary parts of a complex-valued object array; item assignment writes through to the base array
    (`vec._data.imag[:] = 0.0` in the complex-step scheme must really clear them)"""
    _base = None

    def __array_finalize__(self, obj):
        self._base = None

    def __setitem__(self, key, value):
        np.ndarray.__setitem__(self, key, value)
        base = self._base
        if base is None:
            return
        idx = np.arange(base.size).reshape(base.shape)[key]
        bf = base.reshape(-1)
        if bf.base is not base and base.size and not np.shares_memory(bf, base):
            return          # non-contiguous base: cannot write through
        mine = np.ndarray.reshape(self, -1)
        for i in np.asarray(idx).reshape(-1):
            x = bf[i]
            re = x.real if isinstance(x, (SC, complex)) else x
            im = np.ndarray.__getitem__(mine, int(i))
            zero = (not isinstance(im, (SR, SC))) and im == 0
            if isinstance(im, SR) and im.is_const() and im.const_value() == 0:
                zero = True
            bf[i] = re if zero else SC(SR.lift(re), SR.lift(im))


def _RealView(a):
    # complex-valued object array: .real is a copy (not writable-through); enough for cs code
    return _map(lambda x: x.real if isinstance(x, (SC, complex)) else x, a)


def _concrete(x, kind):
    if isinstance(x, (SR, SI)):
        return int(x)
    return x


def _map(f, a):
    a = np.asarray(a, dtype=object)
    out = np.empty(a.shape, dtype=object)
    of = out.reshape(-1)
    for i, x in enumerate(a.reshape(-1)):
        of[i] = f(x)
    return out.view(OA)


def has_sym(a):
    if isinstance(a, (SR, SB, SI, SC)):
        return True
    if isinstance(a, np.ndarray):
        return a.dtype == object
    if isinstance(a, (list, tuple)):
        return any(has_sym(x) for x in a)
    return False


def _dt(dtype):
    if dtype is None:
        return object
    if dtype is float or dtype is complex:
        return object
    try:
        if np.dtype(dtype).kind in 'fc':
            return object
    except TypeError:
        pass
    return dtype


def _w(a):
    if isinstance(a, np.ndarray) and a.dtype == object and not isinstance(a, OA):
        return a.view(OA)
    return a


def oa(x):
    """harness helper: anything -> OA object array (numbers wrapped exactly)"""
    a = np.array(x, dtype=object)
    flat = a.reshape(-1)
    for i, v in enumerate(flat):
        if isinstance(v, (float, np.floating)) and math.isfinite(v):
            flat[i] = SR.const(Fraction(float(v)))
        elif isinstance(v, (int, np.integer)) and not isinstance(v, (bool, np.bool_)):
            flat[i] = SR.const(int(v))
        elif isinstance(v, Fraction):
            flat[i] = SR.const(v)
    return a.view(OA)


class NPProxy:
    """stands in for the module `numpy` inside openmdao modules"""
    _is_symx_proxy = True

    def __getattr__(self, n):
        return getattr(np, n)

    # ---- allocation
    def zeros(self, shape, dtype=None, **kw):
        a = np.empty(shape, dtype=_dt(dtype), **kw)
        if a.dtype == object:
            a.fill(0)
            a.reshape(-1)[...] = [SR(P0)] * a.size if a.size else []
            return a.view(OA)
        a.fill(0)
        return a

    def ones(self, shape, dtype=None, **kw):
        a = np.empty(shape, dtype=_dt(dtype), **kw)
        if a.dtype == object:
            one = SR.const(1)
            a.reshape(-1)[...] = [one] * a.size if a.size else []
            return a.view(OA)
        a.fill(1)
        return a

    def empty(self, shape, dtype=None, **kw):
        return self.zeros(shape, dtype, **kw)

    def full(self, shape, v, dtype=None, **kw):
        if dtype is None and isinstance(v, (int, np.integer, bool, np.bool_)) and not has_sym(v):
            return np.full(shape, v, **kw)
        if not has_sym(v) and _dt(dtype) is not object:
            return np.full(shape, v, dtype=dtype, **kw)
        a = np.empty(shape, dtype=object)
        if isinstance(v, (np.ndarray, list, tuple)):
            a[...] = self.asarray(v, dtype=float)
            return a.view(OA)
        if isinstance(v, (float, np.floating)) and not math.isfinite(v):
            vv = float(v)
        else:
            vv = SR.lift(v) if not isinstance(v, (SC, complex)) else SC.lift(v)
        if vv is None:
            raise Concretize(f'np.full with value {v!r}')
        a.reshape(-1)[...] = [vv] * a.size if a.size else []
        return a.view(OA)

    def zeros_like(self, a, dtype=None, **kw):
        if dtype is None and isinstance(a, np.ndarray) and a.dtype.kind not in 'fcO':
            return np.zeros_like(a, **kw)
        return self.zeros(np.shape(a), dtype)

    def ones_like(self, a, dtype=None, **kw):
        if dtype is None and isinstance(a, np.ndarray) and a.dtype.kind not in 'fcO':
            return np.ones_like(a, **kw)
        return self.ones(np.shape(a), dtype)

    def empty_like(self, a, dtype=None, **kw):
        return self.zeros_like(a, dtype, **kw)

    def full_like(self, a, v, dtype=None, **kw):
        if dtype is None and isinstance(a, np.ndarray) and a.dtype.kind not in 'fcO':
            return np.full_like(a, v, **kw)
        return self.full(np.shape(a), v, dtype if dtype is not None else float)

    def array(self, obj, dtype=None, **kw):
        if dtype is None:
            a = np.array(obj, **kw)
            if a.dtype.kind in 'fc':
                return _lift_arr(a)
            return _w(a)
        d = _dt(dtype)
        a = np.array(obj, dtype=d, **kw)
        if d is object and dtype is not object:
            return _lift_arr(a)
        return _w(a)

    def asarray(self, obj, dtype=None, **kw):
        if dtype is None:
            if isinstance(obj, OA):
                return obj
            a = np.asarray(obj, **kw)
            if a.dtype.kind in 'fc':
                return _lift_arr(a)
            return _w(a)
        d = _dt(dtype)
        if isinstance(obj, OA) and d is object:
            return obj
        a = np.asarray(obj, dtype=d, **kw)
        if d is object and dtype is not object:
            return _lift_arr(a)
        return _w(a)

    def asanyarray(self, obj, dtype=None, **kw):
        return self.asarray(obj, dtype, **kw)

    def ascontiguousarray(self, obj, dtype=None, **kw):
        a = self.asarray(obj, dtype)
        return a if a.flags['C_CONTIGUOUS'] else _w(np.ascontiguousarray(a))

    def atleast_1d(self, *arys):
        r = [_w(np.atleast_1d(self.asarray(a))) for a in arys]
        return r[0] if len(r) == 1 else r

    def atleast_2d(self, *arys):
        r = [_w(np.atleast_2d(self.asarray(a))) for a in arys]
        return r[0] if len(r) == 1 else r

    def eye(self, n, m=None, k=0, dtype=float, **kw):
        a = np.eye(n, m, k, **kw)
        return _lift_arr(a) if _dt(dtype) is object else a.astype(dtype)

    def identity(self, n, dtype=None):
        return self.eye(n, dtype=dtype if dtype is not None else float)

    def linspace(self, start, stop, num=50, endpoint=True, **kw):
        if not has_sym(start) and not has_sym(stop):
            return _lift_arr(np.linspace(start, stop, num, endpoint=endpoint, **kw))
        div = (num - 1) if endpoint else num
        start = SR.lift(start)
        stop = SR.lift(stop)
        step = (stop - start) / div if div > 0 else SR(P0)
        return _w(np.array([start + step * i for i in range(num)], dtype=object))

    def arange(self, *a, **kw):
        r = np.arange(*a, **kw)
        if r.dtype.kind == 'f':
            return _lift_arr(r)
        return r

    def copy(self, a, **kw):
        return _w(np.array(a, copy=True, **kw)) if not isinstance(a, np.ndarray) else a.copy()

    def tile(self, a, reps):
        return _w(np.tile(self.asarray(a), reps))

    def concatenate(self, arrs, *a, **kw):
        kw.pop('dtype', None)
        return _w(np.concatenate([self.asarray(x) for x in arrs], *a, **kw))

    def hstack(self, arrs, **kw):
        return _w(np.hstack([self.asarray(x) for x in arrs]))

    def vstack(self, arrs, **kw):
        return _w(np.vstack([self.asarray(x) for x in arrs]))

    def stack(self, arrs, *a, **kw):
        return _w(np.stack([self.asarray(x) for x in arrs], *a, **kw))

    def diag(self, v, k=0):
        v = self.asarray(v)
        if v.dtype != object:
            return np.diag(v, k)
        if v.ndim == 1:
            n = v.shape[0] + abs(k)
            out = self.zeros((n, n))
            for i in range(v.shape[0]):
                out[i + max(-k, 0), i + max(k, 0)] = v[i]
            return out
        return _w(np.diag(v, k))

    # ---- predicates and element functions
    def isscalar(self, x):
        return isinstance(x, (SR, SI, SC)) or np.isscalar(x)

    def isnan(self, a):
        if has_sym(a):
            if isinstance(a, np.ndarray):
                return np.array([_elt(x, 'isnan') for x in a.ravel()], dtype=object).reshape(a.shape) \
                    if any(hasattr(x, 'sf_kind') for x in a.ravel()) else np.zeros(a.shape, dtype=bool)
            return a.isnan() if hasattr(a, 'isnan') else False
        return np.isnan(a)

    def isinf(self, a):
        if has_sym(a):
            if isinstance(a, np.ndarray):
                return np.array([_elt(x, 'isinf') for x in a.ravel()], dtype=object).reshape(a.shape) \
                    if any(hasattr(x, 'sf_kind') for x in a.ravel()) else np.zeros(a.shape, dtype=bool)
            return a.isinf() if hasattr(a, 'isinf') else False
        return np.isinf(a)

    def isfinite(self, a):
        if has_sym(a):
            if isinstance(a, np.ndarray):
                return np.ones(a.shape, dtype=bool)
            return a.isfinite() if hasattr(a, 'isfinite') else True
        return np.isfinite(a)

    def iscomplexobj(self, a):
        if isinstance(a, (SC, complex)):
            return True
        if isinstance(a, np.ndarray) and a.dtype == object:
            return any(isinstance(x, (SC, complex)) for x in a.ravel())
        if isinstance(a, (SR, SI)):
            return False
        return np.iscomplexobj(a)

    def iscomplex(self, a):
        if has_sym(a):
            if isinstance(a, np.ndarray):
                return np.array([isinstance(x, SC) and bool(x.im != 0) for x in a.ravel()]).reshape(a.shape)
            return isinstance(a, SC) and bool(a.im != 0)
        return np.iscomplex(a)

    def isrealobj(self, a):
        return not self.iscomplexobj(a)

    def real(self, a):
        if isinstance(a, (SR, SC)):
            return a.real
        a = self.asarray(a)
        return a.real

    def imag(self, a):
        if isinstance(a, (SR, SC)):
            return a.imag
        a = self.asarray(a)
        return a.imag

    def abs(self, a):
        if isinstance(a, (SR, SI)) or hasattr(a, 'sf_kind'):
            return builtins.abs(a)
        return _w(np.abs(a))
    absolute = abs

    def sign(self, a):
        def f(x):
            if isinstance(x, (SR, SI)):
                return 1 if (x > 0) else (-1 if (x < 0) else 0)
            return np.sign(x)
        if isinstance(a, (SR, SI)):
            return f(a)
        if isinstance(a, np.ndarray) and a.dtype == object:
            return _map(f, a)
        return np.sign(a)

    def sqrt(self, a):
        if isinstance(a, SR):
            return a.sqrt()
        return _w(np.sqrt(a))

    def exp(self, a):
        if isinstance(a, SR):
            return a.exp()
        return _w(np.exp(a))

    def log(self, a):
        if isinstance(a, SR):
            return a.log()
        return _w(np.log(a))

    def sin(self, a):
        if isinstance(a, SR):
            return a.sin()
        return _w(np.sin(a))

    def cos(self, a):
        if isinstance(a, SR):
            return a.cos()
        return _w(np.cos(a))

    def arctan(self, a):
        if isinstance(a, SR):
            return a.arctan()
        return _w(np.arctan(a))

    def arctan2(self, y, x):
        if has_sym(y) or has_sym(x):
            if isinstance(y, np.ndarray) or isinstance(x, np.ndarray):
                yy, xx = np.broadcast_arrays(np.asarray(y, dtype=object), np.asarray(x, dtype=object))
                out = np.empty(yy.shape, dtype=object)
                for i in np.ndindex(yy.shape):
                    out[i] = SR.lift(yy[i]).arctan2(xx[i])
                return out.view(OA)
            return SR.lift(y).arctan2(x)
        return np.arctan2(y, x)

    def bincount(self, idx, weights=None, minlength=0):
        if weights is None or not (isinstance(weights, np.ndarray) and weights.dtype == object):
            return np.bincount(idx, weights=weights, minlength=minlength)
        idx = np.asarray(idx)
        n = max(minlength, (int(idx.max()) + 1) if idx.size else 0)
        out = self.zeros(n)
        np.add.at(out, idx, weights)
        return out

    def sum(self, a, *args, **kw):
        r = np.sum(a, *args, **kw)
        return _w(r) if isinstance(r, np.ndarray) else r

    def dot(self, a, b, out=None):
        r = np.dot(a, b)
        if out is not None:
            out[...] = r
            return out
        return _w(r) if isinstance(r, np.ndarray) else r

    def einsum(self, *a, **kw):
        kw.pop('optimize', None)
        r = np.einsum(*a, **kw)
        return _w(r) if isinstance(r, np.ndarray) else r

    def nonzero(self, a):
        if isinstance(a, np.ndarray) and a.dtype == object:
            a = np.array([bool(x != 0) if isinstance(x, (SR, SI, SC)) else bool(x) for x in a.ravel()]).reshape(a.shape)
        return np.nonzero(a)

    def count_nonzero(self, a, *args, **kw):
        if isinstance(a, np.ndarray) and a.dtype == object:
            a = np.array([bool(x != 0) if isinstance(x, (SR, SI, SC)) else bool(x) for x in a.ravel()]).reshape(a.shape)
        return np.count_nonzero(a, *args, **kw)

    def allclose(self, a, b, rtol=1e-5, atol=1e-8, **kw):
        if has_sym(a) or has_sym(b):
            # the documented definition |a - b| <= atol + rtol*|b| elementwise; decided by the path (forks on symbolic data,
            # plain evaluation on constants)
            aa, bb = np.broadcast_arrays(np.asarray(a, dtype=object), np.asarray(b, dtype=object))
            for x, y in zip(aa.ravel(), bb.ravel()):
                d = x - y
                ay = y if bool(y >= 0) else -y
                lim = atol + rtol * ay
                if not (bool(d <= lim) and bool(-d <= lim)):
                    return False
            return True
        return np.allclose(a, b, rtol, atol, **kw)

    def array_equal(self, a, b, **kw):
        if has_sym(a) or has_sym(b):
            a = np.asarray(a, dtype=object)
            b = np.asarray(b, dtype=object)
            if a.shape != b.shape:
                return False
            return all(bool(x == y) for x, y in zip(a.ravel(), b.ravel()))
        return np.array_equal(a, b, **kw)

    def any(self, a, *args, **kw):
        if isinstance(a, np.ndarray) and a.dtype == object and not args and not kw:
            for x in a.ravel():
                if x:
                    return True
            return False
        r = np.any(a, *args, **kw)
        return bool(r) if isinstance(r, np.ndarray) and r.ndim == 0 else r

    def all(self, a, *args, **kw):
        if isinstance(a, np.ndarray) and a.dtype == object and not args and not kw:
            for x in a.ravel():
                if not x:
                    return False
            return True
        r = np.all(a, *args, **kw)
        return bool(r) if isinstance(r, np.ndarray) and r.ndim == 0 else r

    def where(self, cond, *xy):
        if isinstance(cond, np.ndarray) and cond.dtype == object:
            cond = np.array([bool(c) for c in cond.ravel()], dtype=bool).reshape(cond.shape)
        elif isinstance(cond, SB):
            cond = bool(cond)
        r = np.where(cond, *xy)
        return _w(r) if isinstance(r, np.ndarray) else r

    def maximum(self, a, b, **kw):
        if isinstance(a, (SR, SI)) and not isinstance(b, np.ndarray) or isinstance(b, (SR, SI)) and not isinstance(a, np.ndarray):
            return a if (a >= b) else b
        return _w(np.maximum(a, b, **kw))

    def minimum(self, a, b, **kw):
        if isinstance(a, (SR, SI)) and not isinstance(b, np.ndarray) or isinstance(b, (SR, SI)) and not isinstance(a, np.ndarray):
            return a if (a <= b) else b
        return _w(np.minimum(a, b, **kw))

    def isclose(self, a, b, **kw):
        if has_sym(a) or has_sym(b):
            raise Concretize('np.isclose on symbolic data')
        return np.isclose(a, b, **kw)

    def cross(self, a, b, **kw):
        return _w(np.cross(self.asarray(a), self.asarray(b), **kw))

    def outer(self, a, b):
        return _w(np.outer(self.asarray(a), self.asarray(b)))

    def cumsum(self, a, *args, **kw):
        return _w(np.cumsum(a, *args, **kw))

    def prod(self, a, *args, **kw):
        r = np.prod(a, *args, **kw)
        return _w(r) if isinstance(r, np.ndarray) else r

    def result_type(self, *a):
        return np.result_type(*[x for x in a if not has_sym(x)] or [float])

    @property
    def linalg(self):
        return _LINALG


class _Linalg:
    def __getattr__(self, n):
        return getattr(np.linalg, n)

    def norm(self, x, ord=None, axis=None, **kw):
        if not has_sym(x):
            return np.linalg.norm(x, ord, axis, **kw)
        x = np.asarray(x, dtype=object)
        if ord in (None, 2, 'fro') and (axis is None):
            s = SR(P0)
            for e in x.ravel():
                s = s + (e * e if not isinstance(e, SC) else e.re * e.re + e.im * e.im)
            return SR.lift(s).sqrt()
        if ord in (None, 2) and axis is not None:
            sq = np.sum(x * x, axis=axis)
            return _map(lambda e: SR.lift(e).sqrt(), sq)
        if ord == np.inf and axis is None:
            m = None
            for e in x.ravel():
                a = builtins.abs(e)
                m = a if m is None or (a > m) else m
            return m
        if ord == 1 and axis is None:
            s = SR(P0)
            for e in x.ravel():
                s = s + builtins.abs(e)
            return s
        raise Concretize(f'linalg.norm ord={ord} axis={axis} on symbolic data')

    def solve(self, A, b):
        if not has_sym(A) and not has_sym(b):
            return np.linalg.solve(A, b)
        from .linalg import solve
        return solve(A, b)

    def inv(self, A):
        if not has_sym(A):
            return np.linalg.inv(A)
        from .linalg import solve
        n = A.shape[0]
        return solve(A, oa(np.eye(n)))

    def det(self, A):
        if not has_sym(A):
            return np.linalg.det(A)
        from .linalg import det
        return det(A)


_LINALG = _Linalg()


def _elt(x, what):
    f = getattr(x, what, None)
    return f() if f is not None else False


def _lift_arr(a):
    """float/complex ndarray -> OA of exact SR constants"""
    a = np.asarray(a)
    if a.dtype == object:
        return _w(a)
    out = np.empty(a.shape, dtype=object)
    of = out.reshape(-1)
    if a.dtype.kind == 'c':
        for i, x in enumerate(a.reshape(-1).tolist()):
            of[i] = SC.lift(x) if x.imag != 0 else SR.const(Fraction(x.real))
    else:
        for i, x in enumerate(a.reshape(-1).tolist()):
            of[i] = SR.const(Fraction(x)) if math.isfinite(x) else x
    return out.view(OA)


PROXY = NPProxy()

STUBS = ['np.zeros/ones/empty/full/*_like/array/asarray/eye/linspace/arange (float->object OA)',
         'np.bincount(weights=object) via np.add.at', 'np.isnan/isinf/isfinite/iscomplexobj/iscomplex',
         'np.abs/sign/sqrt/exp/log/sin/cos/arctan/arctan2 (scalar proxies)', 'np.nonzero/count_nonzero/any/all/where (object)',
         'np.linalg.norm/solve/inv/det (symbolic data)', 'np.maximum/minimum (scalar proxies)']


_OVERRIDDEN = [k for k, v in NPProxy.__dict__.items() if callable(v) and not k.startswith('_')]


def patch_all(prefix='openmdao.', extra=()):
    """rebind the module-global `np` (and `numpy`) of every loaded module under prefix"""
    n = 0
    for name, m in list(sys.modules.items()):
        if m is None or not (name.startswith(prefix) or name in extra):
            continue
        for attr in ('np', 'numpy'):
            if getattr(m, attr, None) is np:
                setattr(m, attr, PROXY)
                n += 1
        # names imported directly (from numpy import bincount, isscalar, ...)
        d = getattr(m, '__dict__', {})
        for attr in _OVERRIDDEN:
            v = d.get(attr)
            if v is not None and v is getattr(np, attr, None):
                setattr(m, attr, getattr(PROXY, attr))
                n += 1
    return n


def unpatch_all():
    for name, m in list(sys.modules.items()):
        if m is None:
            continue
        for attr in ('np', 'numpy'):
            if getattr(m, attr, None) is PROXY:
                setattr(m, attr, np)


def selftest():
    """differential test of the overrides against real NumPy on concrete inputs"""
    rng = np.random.default_rng(0)
    P = PROXY
    errs = []

    def close(a, b):
        a = np.array([float(x) for x in np.asarray(a, dtype=object).ravel()])
        return np.allclose(a, np.asarray(b, dtype=float).ravel())
    idx = rng.integers(0, 5, 12)
    w = rng.normal(size=12)
    if not close(P.bincount(idx, weights=oa(w), minlength=7), np.bincount(idx, weights=w, minlength=7)):
        errs.append('bincount')
    if not close(P.linspace(SR.const(1), SR.const(3), 5), np.linspace(1, 3, 5)):
        errs.append('linspace')
    if not close(P.diag(oa([1., 2., 3.]), 1), np.diag([1., 2., 3.], 1)):
        errs.append('diag')
    if not close(P.zeros((2, 3)), np.zeros((2, 3))) or not close(P.ones(4), np.ones(4)) or not close(P.full(3, 2.5), np.full(3, 2.5)):
        errs.append('alloc')
    if not close(P.eye(3), np.eye(3)):
        errs.append('eye')
    a = rng.normal(size=(3, 3)) + 3 * np.eye(3)
    b = rng.normal(size=3)
    from . import linalg
    if not close(linalg.solve(oa(a), oa(b)), np.linalg.solve(a, b)):
        errs.append('linalg.solve')
    if not close([linalg.det(oa(a))], [np.linalg.det(a)]):
        errs.append('linalg.det')
    return errs
