"""Exact linear algebra on object arrays (fraction-free where possible), used as stubs for
LAPACK entry points.  Pivot selection branches on `entry != 0`, so every nonsingular case is
explored as its own path; a singular matrix raises LinAlgError like LAPACK would."""
import numpy as np

from .values import SR
from .poly import P0
from .npstub import OA, oa, _w


def solve(A, b, trans=0):
    A = np.array(A, dtype=object)
    if trans:
        A = A.T.copy()
    n = A.shape[0]
    b = np.array(b, dtype=object)
    vec = b.ndim == 1
    B = b.reshape(n, -1).copy()
    A = A.copy()
    for k in range(n):
        p = None
        for r in range(k, n):
            if A[r, k] != 0:
                p = r
                break
        if p is None:
            raise np.linalg.LinAlgError('Singular matrix')
        if p != k:
            A[[k, p]] = A[[p, k]]
            B[[k, p]] = B[[p, k]]
        piv = A[k, k]
        for r in range(k + 1, n):
            f = A[r, k]
            if isinstance(f, SR) and f.n.is_zero() or (not isinstance(f, SR) and f == 0):
                continue
            f = f / piv
            A[r, k:] = A[r, k:] - f * A[k, k:]
            B[r] = B[r] - f * B[k]
    X = np.empty(B.shape, dtype=object)
    for k in range(n - 1, -1, -1):
        s = B[k].copy()
        for c in range(k + 1, n):
            s = s - A[k, c] * X[c]
        X[k] = s / A[k, k]
    X = X.view(OA)
    return X.reshape(n) if vec else X.reshape(b.shape)


def det(A):
    A = np.array(A, dtype=object)
    n = A.shape[0]
    if n == 1:
        return A[0, 0]
    if n == 2:
        return A[0, 0] * A[1, 1] - A[0, 1] * A[1, 0]
    s = SR(P0)
    for j in range(n):
        minor = np.delete(np.delete(A, 0, axis=0), j, axis=1)
        s = s + ((-1) ** j) * A[0, j] * det(minor)
    return s


class LU:
    """what the lu_factor stub returns: remembers A; lu_solve re-eliminates."""

    def __init__(self, A):
        self.A = np.array(A, dtype=object).view(OA)


def lu_factor(A, *a, **k):
    return (LU(A), None)


def lu_solve(lu_and_piv, b, trans=0, *a, **k):
    return solve(lu_and_piv[0].A, b, trans=trans)
