"""Proxy scalars: SR (real, canonical rational function over Q[symbols]), SB (bool, z3 term),
SI (int, z3 term), SC (complex = pair of SR).  Branching on an SB asks the current Explorer."""
import math
import numbers
from fractions import Fraction

import numpy as np
import z3

from .poly import Poly, REG, P0, P1, _rv


class Abort(BaseException):
    """infeasible path (BaseException so that code under test cannot swallow it)."""


class Concretize(Exception):
    """a proxy value reached a point that needs a concrete number: a stub is missing."""


class _Cur:
    ex = None


CUR = _Cur()


def _ex():
    if CUR.ex is None:
        raise RuntimeError('symbolic value used outside an exploration')
    return CUR.ex


# ------------------------------------------------------------------------------------------
class SB:
    __slots__ = ('t',)

    def __init__(self, t):
        if isinstance(t, (bool, np.bool_)):
            t = z3.BoolVal(bool(t))
        self.t = t

    def __bool__(self):
        t = self.t
        if z3.is_true(t):
            return True
        if z3.is_false(t):
            return False
        if CUR.ex is None:
            t = z3.simplify(t)
            if z3.is_true(t):
                return True
            if z3.is_false(t):
                return False
        return _ex().decide(t)

    @staticmethod
    def lift(o):
        if isinstance(o, SB):
            return o.t
        if isinstance(o, (bool, np.bool_)):
            return z3.BoolVal(bool(o))
        return None

    def __and__(s, o):
        v = SB.lift(o)
        return NotImplemented if v is None else SB(z3.And(s.t, v))
    __rand__ = __and__

    def __or__(s, o):
        v = SB.lift(o)
        return NotImplemented if v is None else SB(z3.Or(s.t, v))
    __ror__ = __or__

    def __xor__(s, o):
        v = SB.lift(o)
        return NotImplemented if v is None else SB(z3.Xor(s.t, v))
    __rxor__ = __xor__

    def __invert__(s):
        return SB(z3.Not(s.t))

    def __eq__(s, o):
        v = SB.lift(o)
        return NotImplemented if v is None else SB(s.t == v)

    def __ne__(s, o):
        v = SB.lift(o)
        return NotImplemented if v is None else SB(s.t != v)
    __hash__ = None

    def implies(s, o):
        return SB(z3.Implies(s.t, SB.lift(o)))

    def __repr__(s):
        return f'SB({z3.simplify(s.t)})'


def sb(x):
    """anything boolean-like -> SB"""
    if isinstance(x, SB):
        return x
    if isinstance(x, z3.BoolRef):
        return SB(x)
    return SB(bool(x))


def And(*xs):
    return SB(z3.And(*[sb(x).t for x in xs])) if xs else SB(True)


def Or(*xs):
    return SB(z3.Or(*[sb(x).t for x in xs])) if xs else SB(False)


def Not(x):
    return SB(z3.Not(sb(x).t))


def Implies(a, b):
    return SB(z3.Implies(sb(a).t, sb(b).t))


# ------------------------------------------------------------------------------------------
def _frac(o):
    """python/numpy number -> Fraction, or None"""
    if isinstance(o, Fraction):
        return o
    if isinstance(o, (bool, np.bool_)):
        return Fraction(int(o))
    if isinstance(o, (int, np.integer)):
        return Fraction(int(o))
    if isinstance(o, (float, np.floating)):
        o = float(o)
        if not math.isfinite(o):
            return o          # handled by callers (comparisons with inf are meaningful)
        return Fraction(o)
    return None


def _isinf(o):
    return isinstance(o, (float, np.floating)) and not math.isfinite(o)


class SR:
    """n/d with n, d polynomials over Q, d != 0 on the current path (assumed at division).
    Non-finite float operands follow IEEE for finite self: x + inf = inf, x * inf = sign(x) inf."""
    __slots__ = ('n', 'd')

    def __init__(self, n, d=P1):
        self.n = n
        self.d = d

    # ---- construction
    @staticmethod
    def const(c):
        return SR(Poly.const(c))

    @staticmethod
    def sym(name):
        return SR(Poly.var(REG.var(name)))

    @staticmethod
    def lift(o):
        if isinstance(o, SR):
            return o
        if isinstance(o, SI):
            return o.as_real()
        f = _frac(o)
        if f is None:
            if isinstance(o, np.ndarray) and o.ndim == 0:
                return SR.lift(o.item())
            return None
        if isinstance(f, float):
            raise Concretize(f'non-finite constant {f} in real arithmetic')
        return SR(Poly.const(f))

    @staticmethod
    def mk(n, d):
        if n.is_zero():
            return SR(P0, P1)
        if d.is_const():
            c = d.const_value()
            return SR(n if c == 1 else n.scale(1 / c), P1)
        q = n.divexact(d)
        if q is not None:
            return SR(q, P1)
        _, lc = d.lead()
        if lc != 1:
            n = n.scale(1 / lc)
            d = d.scale(1 / lc)
        return SR(n, d)

    def is_const(s):
        return s.d.is_const() and s.n.is_const()

    def const_value(s):
        return s.n.const_value() / s.d.const_value()

    # ---- arithmetic
    def _mulinf(s, o):
        o = float(o)
        if math.isnan(o):
            return o
        if s > 0:
            return o
        if s < 0:
            return -o
        return float('nan')

    def __add__(s, o):
        if isinstance(o, (complex, np.complexfloating, SC)):
            return SC.lift(s) + o
        if _isinf(o):
            return float(o)
        o = SR.lift(o)
        if o is None:
            return NotImplemented
        if s.d is o.d or s.d == o.d:
            return SR.mk(s.n.add(o.n), s.d)
        if s.d.is_const() and o.d.is_const():
            return SR(s.n.add(o.n))
        q = o.d.divexact(s.d) if not s.d.is_const() else None
        if q is not None:
            return SR.mk(s.n.mul(q).add(o.n), o.d)
        q = s.d.divexact(o.d) if not o.d.is_const() else None
        if q is not None:
            return SR.mk(s.n.add(o.n.mul(q)), s.d)
        return SR.mk(s.n.mul(o.d).add(o.n.mul(s.d)), s.d.mul(o.d))
    __radd__ = __add__

    def __neg__(s):
        return SR(s.n.neg(), s.d)

    def __pos__(s):
        return s

    def __sub__(s, o):
        if isinstance(o, (complex, np.complexfloating, SC)):
            return SC.lift(s) - o
        if _isinf(o):
            return -float(o)
        o = SR.lift(o)
        if o is None:
            return NotImplemented
        return s.__add__(SR(o.n.neg(), o.d))

    def __rsub__(s, o):
        if isinstance(o, (complex, np.complexfloating, SC)):
            return o - SC.lift(s)
        if _isinf(o):
            return float(o)
        o = SR.lift(o)
        if o is None:
            return NotImplemented
        return o.__add__(SR(s.n.neg(), s.d))

    def __mul__(s, o):
        if isinstance(o, (complex, np.complexfloating, SC)):
            return SC.lift(s) * o
        if _isinf(o):
            return s._mulinf(o)
        o = SR.lift(o)
        if o is None:
            return NotImplemented
        if s.d.is_const() and o.d.is_const():
            return SR(s.n.mul(o.n))
        n1, d1, n2, d2 = s.n, s.d, o.n, o.d
        if not d2.is_const():
            q = n1.divexact(d2)
            if q is not None:
                n1, d2 = q, P1
        if not d1.is_const():
            q = n2.divexact(d1)
            if q is not None:
                n2, d1 = q, P1
        return SR.mk(n1.mul(n2), d1.mul(d2))
    __rmul__ = __mul__

    def _inv(s):
        if s.n.is_zero():
            raise ZeroDivisionError('division by exact zero')
        if not s.n.is_const():
            _ex().assume_nonzero(s.n)
        return SR.mk(s.d, s.n)

    def __truediv__(s, o):
        if isinstance(o, (complex, np.complexfloating, SC)):
            return SC.lift(s) / o
        if _isinf(o):
            return float('nan') if math.isnan(o) else SR(P0)
        o = SR.lift(o)
        if o is None:
            return NotImplemented
        if o.n.is_zero():
            # IEEE semantics of x/0 for code that divides first and masks the entries afterwards (e.g. the akima
            # weights): the quotient is a float NaN/inf that poisons any obligation it reaches
            if s.is_const():
                c = s.const_value()
                return float('nan') if c == 0 else (float('inf') if c > 0 else float('-inf'))
            return float('nan')
        return s.__mul__(o._inv())

    def __rtruediv__(s, o):
        if isinstance(o, (complex, np.complexfloating, SC)):
            return o / SC.lift(s)
        if _isinf(o):
            return s._mulinf(o)
        o = SR.lift(o)
        if o is None:
            return NotImplemented
        return o.__mul__(s._inv())

    def __pow__(s, k):
        if isinstance(k, SR) and k.is_const():
            k = k.const_value()
        if isinstance(k, SI):
            raise Concretize('symbolic integer exponent')
        f = _frac(k)
        if f is None or isinstance(f, float):
            raise Concretize(f'power with exponent {k!r}')
        if f.denominator == 1:
            e = int(f)
            if e >= 0:
                return SR.mk(s.n.pow(e), s.d.pow(e))
            inv = s._inv()
            return SR.mk(inv.n.pow(-e), inv.d.pow(-e))
        if f == Fraction(1, 2):
            return s.sqrt()
        if f == Fraction(-1, 2):
            return s.sqrt()._inv()
        if f == Fraction(3, 2):
            return s * s.sqrt()
        raise Concretize(f'non-integer power {k!r}')

    def __rpow__(s, b):
        if s.is_const():
            return SR.lift(b) ** s.const_value()
        raise Concretize('symbolic exponent')

    def __abs__(s):
        return s if (s >= 0) else -s

    def __float__(s):
        if s.is_const():
            return float(s.const_value())
        raise Concretize('float() of a symbolic real')

    def __int__(s):
        if s.is_const():
            return int(s.const_value())
        raise Concretize('int() of a symbolic real')

    def __index__(s):
        if s.is_const() and s.const_value().denominator == 1:
            return int(s.const_value())
        raise Concretize('index from a symbolic real')

    def __complex__(s):
        return complex(float(s))

    def __round__(s, nd=None):
        if s.is_const():
            return round(float(s.const_value()), nd)
        raise Concretize('round() of a symbolic real')

    def __bool__(s):
        if s.n.is_const():
            return not s.n.is_zero()
        return _ex().decide(s.n.z3() != 0)

    __hash__ = None

    # ---- comparisons
    def _cmp(s, o, op):
        f = _frac(o) if not isinstance(o, (SR, SI)) else None
        if isinstance(f, float):          # +-inf / nan
            if math.isnan(f):
                return SB(op == 'ne')
            pos = f > 0
            return SB({'lt': pos, 'le': pos, 'gt': not pos, 'ge': not pos, 'eq': False, 'ne': True}[op])
        o = SR.lift(o)
        if o is None:
            return NotImplemented
        if s.d.is_const() and o.d.is_const():
            p = s.n.sub(o.n)
        else:
            p = s.n.mul(o.d).sub(o.n.mul(s.d))
            if op not in ('eq', 'ne'):
                if s.d == o.d:
                    p = s.n.sub(o.n).mul(s.d)
                else:
                    p = p.mul(s.d.mul(o.d))
        if p.is_const():
            c = p.const_value()
            return SB({'lt': c < 0, 'le': c <= 0, 'gt': c > 0, 'ge': c >= 0, 'eq': c == 0, 'ne': c != 0}[op])
        z = p.z3()
        return SB({'lt': z < 0, 'le': z <= 0, 'gt': z > 0, 'ge': z >= 0, 'eq': z == 0, 'ne': z != 0}[op])

    def __lt__(s, o): return s._cmp(o, 'lt')
    def __le__(s, o): return s._cmp(o, 'le')
    def __gt__(s, o): return s._cmp(o, 'gt')
    def __ge__(s, o): return s._cmp(o, 'ge')
    def __eq__(s, o): return s._cmp(o, 'eq')
    def __ne__(s, o): return s._cmp(o, 'ne')

    # ---- numpy object-loop protocol (np.sqrt(objarr) calls elem.sqrt(), ...)
    def conjugate(s): return s
    conj = conjugate

    @property
    def real(s): return s

    @property
    def imag(s): return 0

    def sqrt(s):
        if s.is_const():
            c = s.const_value()
            if c >= 0:
                r = Fraction(math.isqrt(c.numerator), 1) / Fraction(math.isqrt(c.denominator), 1)
                if r * r == c:
                    return SR.const(r)
        return _ex().atom('sqrt', (s,))

    def exp(s):
        if s.is_const() and s.const_value() == 0:
            return SR.const(1)
        return _ex().atom('exp', (s,))

    def log(s):
        if s.is_const() and s.const_value() == 1:
            return SR.const(0)
        return _ex().atom('log', (s,))

    def sin(s):
        if s.is_const() and s.const_value() == 0:
            return SR.const(0)
        return _ex().atom('sin', (s,))

    def cos(s):
        if s.is_const() and s.const_value() == 0:
            return SR.const(1)
        return _ex().atom('cos', (s,))

    def arctan(s):
        return _ex().atom('arctan', (s,))

    def arctan2(s, o):
        return _ex().atom('arctan2', (s, SR.lift(o)))

    def rint(s): raise Concretize('rint of a symbolic real')
    def floor(s): raise Concretize('floor of a symbolic real')
    def ceil(s): raise Concretize('ceil of a symbolic real')

    def isnan(s): return False
    def isinf(s): return False
    def isfinite(s): return True

    def copy(s): return s
    def __copy__(s): return s
    def __deepcopy__(s, memo): return s
    def item(s): return s

    # the slice of the NumPy scalar API that array code uses on elements taken out of an array
    dtype = np.dtype(object)
    shape = ()
    ndim = 0
    size = 1
    base = None

    def ravel(s):
        a = np.empty(1, dtype=object)
        a[0] = s
        return a
    flatten = ravel

    def reshape(s, *shape):
        return s.ravel().reshape(*shape)

    def astype(s, dtype, *a, **k): return s

    # ---- calculus / evaluation
    def diff(s, vid):
        """d s / d var (atoms by the chain rule)."""
        return _diff(s, vid)

    def key(s):
        return (s.n.key(), s.d.key())

    def z3(s):
        if s.d.is_const():
            return s.n.z3()
        return s.n.z3() / s.d.z3()

    def __repr__(s):
        if s.d.is_const():
            return f'SR({s.n!r})'
        return f'SR(({s.n!r})/({s.d!r}))'

    def __format__(s, spec):
        return repr(s)


numbers.Number.register(SR)


def _diff(s, vid, _seen=None):
    dn = _pdiff(s.n, vid)
    if s.d.is_const():
        return dn * (1 / s.d.const_value()) if not s.d.const_value() == 1 else dn
    dd = _pdiff(s.d, vid)
    N, D = SR(s.n), SR(s.d)
    return (dn * D - N * dd) / (D * D)


def _pdiff(p, vid):
    """derivative of polynomial p w.r.t. variable vid, including through atoms; returns SR"""
    out = SR(p.diff(vid))
    for v in p.vars():
        a = REG.atom.get(v)
        if a is None or v == vid:
            continue
        kind, args = a
        coef = SR(p.diff(v))
        A = SR(Poly.var(v))
        if kind == 'exp':
            da = A * _diff(args[0], vid)
        elif kind == 'log':
            da = _diff(args[0], vid) / args[0]
        elif kind == 'sqrt':
            da = _diff(args[0], vid) / (2 * A)
        elif kind == 'sin':
            da = args[0].cos() * _diff(args[0], vid)
        elif kind == 'cos':
            da = -args[0].sin() * _diff(args[0], vid)
        elif kind == 'arctan':
            da = _diff(args[0], vid) / (1 + args[0] * args[0])
        elif kind == 'arctan2':
            y, x = args
            da = (x * _diff(y, vid) - y * _diff(x, vid)) / (x * x + y * y)
        elif kind == 'opaque':
            da = SR(P0)
        else:
            raise Concretize(f'no derivative rule for atom {kind}')
        if not da.n.is_zero():
            out = out + coef * da
    return out


# ------------------------------------------------------------------------------------------
class SI:
    """symbolic integer (z3 Int term). Arithmetic stays in Int; mixing with SR lifts to real."""
    __slots__ = ('t', 'dom')

    def __init__(self, t, dom=None):
        self.t = t
        self.dom = dom

    @staticmethod
    def sym(name, lo=None, hi=None):
        vid = REG.var(name, 'I')
        s = SI(REG.z3c[vid], (lo, hi) if lo is not None else None)
        return s

    @staticmethod
    def v(o):
        if isinstance(o, SI):
            return o.t
        if isinstance(o, (bool, np.bool_)):
            return None
        if isinstance(o, (int, np.integer)):
            return z3.IntVal(int(o))
        return None

    def as_real(s):
        t = z3.simplify(s.t)
        if z3.is_int_value(t):
            return SR.const(t.as_long())
        if z3.is_const(t) and t.decl().kind() == z3.Z3_OP_UNINTERPRETED:
            return SR(Poly.var(REG.var(str(t), 'I')))
        return _ex().atom_int(s)

    def __add__(s, o):
        v = SI.v(o)
        if v is None:
            return s.as_real() + o if isinstance(o, (float, np.floating, Fraction, SR)) else NotImplemented
        return SI(z3.simplify(s.t + v))
    __radd__ = __add__

    def __sub__(s, o):
        v = SI.v(o)
        if v is None:
            return s.as_real() - o if isinstance(o, (float, np.floating, Fraction, SR)) else NotImplemented
        return SI(z3.simplify(s.t - v))

    def __rsub__(s, o):
        v = SI.v(o)
        if v is None:
            return o - s.as_real() if isinstance(o, (float, np.floating, Fraction, SR)) else NotImplemented
        return SI(z3.simplify(v - s.t))

    def __mul__(s, o):
        v = SI.v(o)
        if v is None:
            return s.as_real() * o if isinstance(o, (float, np.floating, Fraction, SR)) else NotImplemented
        return SI(z3.simplify(s.t * v))
    __rmul__ = __mul__

    def __truediv__(s, o):
        return s.as_real() / o

    def __rtruediv__(s, o):
        return o / s.as_real()

    def __floordiv__(s, o):
        v = SI.v(o)
        if v is None:
            return NotImplemented
        # python floor division; z3 Int div is euclidean (rounds so that remainder >= 0)
        # exact python semantics: floor(a/b).  For b>0 euclid == floor.  For b<0: floor(a/b) = -ceil(a/(-b)) = -(( a + (-b) - 1) div (-b))
        q = z3.If(v > 0, s.t / v, -((s.t + (-v) - 1) / (-v)))
        return SI(z3.simplify(q))

    def __mod__(s, o):
        v = SI.v(o)
        if v is None:
            return NotImplemented
        q = z3.If(v > 0, s.t / v, -((s.t + (-v) - 1) / (-v)))
        return SI(z3.simplify(s.t - q * v))

    def __neg__(s): return SI(z3.simplify(-s.t))
    def __pos__(s): return s
    def __abs__(s): return s if (s >= 0) else -s

    def _c(s, o, f):
        v = SI.v(o)
        if v is None:
            if isinstance(o, (float, np.floating, Fraction, SR)):
                return None
            return NotImplemented
        return SB(z3.simplify(f(s.t, v)))

    def __lt__(s, o):
        r = s._c(o, lambda a, b: a < b)
        return s.as_real() < o if r is None else r

    def __le__(s, o):
        r = s._c(o, lambda a, b: a <= b)
        return s.as_real() <= o if r is None else r

    def __gt__(s, o):
        r = s._c(o, lambda a, b: a > b)
        return s.as_real() > o if r is None else r

    def __ge__(s, o):
        r = s._c(o, lambda a, b: a >= b)
        return s.as_real() >= o if r is None else r

    def __eq__(s, o):
        r = s._c(o, lambda a, b: a == b)
        return s.as_real() == o if r is None else r

    def __ne__(s, o):
        r = s._c(o, lambda a, b: a != b)
        return s.as_real() != o if r is None else r
    __hash__ = None

    def __bool__(s):
        return _ex().decide(s.t != 0)

    def __index__(s):
        return _ex().realise_int(s)
    __int__ = __index__

    def __float__(s):
        return float(_ex().realise_int(s))

    def __repr__(s):
        return f'SI({s.t})'


numbers.Number.register(SI)


# ------------------------------------------------------------------------------------------
class SC:
    """complex number as a pair of SR."""
    __slots__ = ('re', 'im')

    def __init__(self, re, im):
        self.re = re
        self.im = im

    @staticmethod
    def lift(o):
        if isinstance(o, SC):
            return o
        if isinstance(o, (complex, np.complexfloating)):
            return SC(SR.lift(o.real), SR.lift(o.imag))
        r = SR.lift(o)
        if r is None:
            return None
        return SC(r, SR(P0))

    def __add__(s, o):
        o = SC.lift(o)
        return NotImplemented if o is None else SC(s.re + o.re, s.im + o.im)
    __radd__ = __add__

    def __sub__(s, o):
        o = SC.lift(o)
        return NotImplemented if o is None else SC(s.re - o.re, s.im - o.im)

    def __rsub__(s, o):
        o = SC.lift(o)
        return NotImplemented if o is None else SC(o.re - s.re, o.im - s.im)

    def __mul__(s, o):
        o = SC.lift(o)
        if o is None:
            return NotImplemented
        return SC(s.re * o.re - s.im * o.im, s.re * o.im + s.im * o.re)
    __rmul__ = __mul__

    def __truediv__(s, o):
        o = SC.lift(o)
        if o is None:
            return NotImplemented
        if o.im.n.is_zero():
            return SC(s.re / o.re, s.im / o.re)
        m = o.re * o.re + o.im * o.im
        return SC((s.re * o.re + s.im * o.im) / m, (s.im * o.re - s.re * o.im) / m)

    def __rtruediv__(s, o):
        o = SC.lift(o)
        return NotImplemented if o is None else o.__truediv__(s)

    def __neg__(s): return SC(-s.re, -s.im)
    def __pos__(s): return s

    def __pow__(s, k):
        if isinstance(k, SR) and k.is_const():
            k = k.const_value()
        if isinstance(k, SC) and k.im.n.is_zero() and k.re.is_const():
            k = k.re.const_value()
        f = _frac(k)
        if f is None or isinstance(f, float) or f.denominator != 1:
            raise Concretize(f'complex power {k!r}')
        e = int(f)
        r = SC(SR.const(1), SR(P0))
        b = s if e >= 0 else SC(SR.const(1), SR(P0)) / s
        for _ in range(abs(e)):
            r = r * b
        return r

    def __eq__(s, o):
        o = SC.lift(o)
        return NotImplemented if o is None else (s.re == o.re) & (s.im == o.im)

    def __ne__(s, o):
        o = SC.lift(o)
        return NotImplemented if o is None else (s.re != o.re) | (s.im != o.im)
    __hash__ = None

    def __bool__(s):
        return bool((s.re != 0) | (s.im != 0))

    # ordering of complex numbers: numpy orders by real part first; OpenMDAO only compares .real
    def __lt__(s, o): return s.re < SC.lift(o).re
    def __le__(s, o): return s.re <= SC.lift(o).re
    def __gt__(s, o): return s.re > SC.lift(o).re
    def __ge__(s, o): return s.re >= SC.lift(o).re

    def conjugate(s): return SC(s.re, -s.im)
    conj = conjugate

    @property
    def real(s): return s.re

    @property
    def imag(s): return s.im

    def __abs__(s):
        raise Concretize('abs of a symbolic complex')

    def __complex__(s):
        return complex(float(s.re), float(s.im))

    def __float__(s):
        raise TypeError("can't convert complex to float")

    def copy(s): return s
    def __deepcopy__(s, memo): return s

    def __repr__(s):
        return f'SC({s.re!r}, {s.im!r})'


numbers.Number.register(SC)
