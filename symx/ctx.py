"""Harness context: one harness function runs in three modes.

sym    inputs are symbols, branches fork, obligations go to z3
exact  the same proxies, but every input is the exact rational constant of a replay file
float  plain float64 / real NumPy / no np-proxy: the public code exactly as a user runs it
"""
import math
from fractions import Fraction

import numpy as np

from .values import SR, SB, SI, SC, sb, And, Or, Not, Implies, Abort
from .poly import P0
from . import npstub


class Unmet(Exception):
    """float/exact replay: the recorded inputs do not satisfy a harness precondition"""


def parse_num(s):
    if isinstance(s, (int, float, Fraction)):
        return Fraction(s)
    s = s.lstrip('~')
    return Fraction(s)


class Ctx:
    def __init__(self, mode, ex=None, inputs=None, ftol=1e-6):
        self.mode = mode
        self.ex = ex
        self.inputs = inputs or {}
        self.ftol = ftol
        self.obligations = []
        self.observed = {}
        self.notes = {}
        self.box = []
        self.sym = mode != 'float'
        self.np = npstub.PROXY if self.sym else np

    # ------------------------------------------------------------------ inputs
    def real(self, name, lo=None, hi=None):
        if self.mode == 'sym':
            s = self.ex.real(name, lo, hi)
            self.box.append(s)
            return s
        v = parse_num(self.inputs.get(name, 0))
        if (lo is not None and v < lo) or (hi is not None and v > hi):
            raise Unmet(f'{name}={v} outside [{lo},{hi}]')
        if self.mode == 'exact':
            self.ex.declared[name] = ('R', SR.const(v))
            return SR.const(v)
        return float(v)

    def reals(self, prefix, shape, lo=None, hi=None):
        shape = (shape,) if isinstance(shape, int) else tuple(shape)
        out = np.empty(shape, dtype=object if self.sym else float)
        for idx in np.ndindex(*shape):
            out[idx] = self.real(prefix + '_' + '_'.join(map(str, idx)), lo, hi)
        return out.view(npstub.OA) if self.sym else out

    def integer(self, name, lo=None, hi=None):
        if self.mode == 'sym':
            return self.ex.integer(name, lo, hi)
        v = int(parse_num(self.inputs.get(name, lo if lo is not None else 0)))
        if (lo is not None and v < lo) or (hi is not None and v > hi):
            raise Unmet(f'{name}={v} outside [{lo},{hi}]')
        return v

    def boolean(self, name):
        if self.mode == 'sym':
            return self.ex.boolean(name)
        return bool(self.inputs.get(name, False))

    def special(self, name, lo=None, hi=None):
        """a float that may also be NaN or +inf (decided by two extra boolean inputs); the finite
        case is a symbolic real.  Used for residual-norm histories."""
        if self.boolean(name + '_isnan'):
            return float('nan')
        if self.boolean(name + '_isinf'):
            return float('inf')
        return self.real(name, lo, hi)

    def const(self, v):
        """exact constant (int, Fraction, 'p/q' string or float) in the mode's number type"""
        f = Fraction(v) if not isinstance(v, float) else Fraction(v)
        return SR.const(f) if self.sym else float(f)

    def consts(self, vals):
        a = np.array(vals, dtype=object)
        out = np.empty(a.shape, dtype=object if self.sym else float)
        for idx in np.ndindex(*a.shape):
            out[idx] = self.const(a[idx])
        return out.view(npstub.OA) if self.sym else out

    def zeros(self, shape):
        return self.np.zeros(shape)

    def ones(self, shape):
        return self.np.ones(shape)

    def array(self, x):
        """list of mode-typed numbers -> array of the mode's kind"""
        if self.sym:
            return npstub.oa(x)
        return np.array(x, dtype=float)

    # ------------------------------------------------------------------ logic
    def assume(self, cond):
        if self.mode == 'sym':
            self.ex.assume(cond)
            return
        if isinstance(cond, SB):
            cond = bool(cond)
        if not cond:
            raise Unmet('assumption not satisfied by the replayed inputs')

    def check(self, name, cond, **meta):
        if self.sym:
            self.obligations.append((name, sb(cond) if not isinstance(cond, (bool, np.bool_)) else bool(cond), meta))
        else:
            self.obligations.append((name, bool(cond), meta))

    def _pairs(self, name, a, b):
        if isinstance(a, np.ndarray) or isinstance(b, np.ndarray) or isinstance(a, (list, tuple)) or isinstance(b, (list, tuple)):
            a = np.asarray(a, dtype=object if self.sym else None)
            b = np.asarray(b, dtype=object if self.sym else None)
            if a.shape != b.shape:
                try:
                    a, b = np.broadcast_arrays(a, b)
                except ValueError:
                    self.check(name + ':shape', False, shapes=(list(a.shape), list(b.shape)))
                    return
            for idx in np.ndindex(*a.shape):
                yield name + str(list(idx)), a[idx], b[idx]
        else:
            yield name, a, b

    def eq(self, name, a, b, tol=0):
        """a == b exactly when tol == 0; else |a-b| <= tol*(1 + max|b| over the declared input box)
        (an absolute margin scaled by the largest magnitude b can take), or, when b depends on an
        input without a declared box, |a-b| <= tol*(1+|b|).  Used only where inexact float64
        constants such as unit factors are on the path.  Exact replay uses tol*(1+|b|) at the
        replayed point, which is never larger than either form, so a symbolic counterexample is
        also an exact one."""
        for nm, x, y in self._pairs(name, a, b):
            if self.sym:
                if isinstance(x, SC) or isinstance(y, SC):
                    x, y = SC.lift(x), SC.lift(y)
                    self.eq(nm + '.re', x.re, y.re, tol)
                    self.eq(nm + '.im', x.im, y.im, tol)
                    continue
                x = SR.lift(x)
                y = SR.lift(y)
                if x is None or y is None:
                    self.check(nm, False, reason='non-numeric value')
                    continue
                d = x - y
                if tol == 0:
                    cond = (d == 0)
                else:
                    yb = self.ex.abs_bound(y)
                    if yb is not None:
                        atol = Fraction(tol) * (1 + yb)
                        cond = (d <= atol) & (d >= -atol)
                    else:
                        # b is not confined to a declared box: margin relative to b itself,
                        # |d| <= tol*(1+|b|), written without abs so that it stays polynomial
                        atol = None
                        t = Fraction(tol)
                        hi1, hi2 = t * (1 + y), t * (1 - y)
                        cond = ((d <= hi1) | (d <= hi2)) & ((-d <= hi1) | (-d <= hi2))
                strong = None
                if not d.is_const():
                    strong = And(d * d >= Fraction(1, 10000) * (1 + y * y), *self._boxc(100))
                if tol == 0 or atol is None:
                    self.check(nm, cond, strong=strong)
                else:
                    self.check(nm, cond, strong=strong, margin=(d, atol))
            else:
                x = complex(x) if isinstance(x, (complex, np.complexfloating)) else float(x)
                y = complex(y) if isinstance(y, (complex, np.complexfloating)) else float(y)
                t = max(10 * tol, self.ftol)
                ok = abs(x - y) <= t * (1 + abs(y))
                self.check(nm, ok, lhs=repr(x), rhs=repr(y))

    def deriv(self, name, got, out, wrt, fd, tol=0, h=1e-6, ftol=2e-4):
        """`got` must be d(out)/d(wrt).  sym/exact: the oracle is the chain-rule derivative of the
        term `out` the code returned w.r.t. the input symbol `wrt`.  float: central difference of
        fd(delta) = the same output recomputed by the real code with `wrt` shifted by delta."""
        if self.mode == 'sym':
            self.eq(name, got, out.diff(sym_id(wrt)), tol)
        elif self.mode == 'exact':
            # inputs are constants: differentiate numerically in exact arithmetic is not possible,
            # so exact replay re-checks with a symbolic perturbation of this one input
            self.check(name, True, skipped='derivative obligations are replayed in float mode only')
        else:
            d = (float(fd(h)) - float(fd(-h))) / (2 * h)
            ok = abs(float(got) - d) <= max(ftol, 10 * tol) * (1 + abs(d))
            self.check(name, ok, lhs=repr(float(got)), rhs=repr(d))

    def deriv_matrix(self, name, J, outs, wrts, fd, tol=0, h=1e-6, ftol=2e-4):
        """J[i, j] must be d outs[i] / d wrts[j].  sym: chain-rule derivative of the returned terms;
        float: central differences, fd(delta_vector) -> flat outputs recomputed by the real code."""
        J = np.asarray(J, dtype=object if self.sym else float)
        outs = np.asarray(outs, dtype=object if self.sym else float).reshape(-1)
        wr = np.asarray(wrts, dtype=object if self.sym else float).reshape(-1)
        if J.shape != (outs.size, wr.size):
            self.check(name + ':shape', False, got=list(J.shape), want=[outs.size, wr.size])
            return
        if self.mode == 'sym':
            for j in range(wr.size):
                vid = sym_id(wr[j])
                for i in range(outs.size):
                    o = SR.lift(outs[i])
                    self.eq(f'{name}[{i},{j}]', J[i, j], o.diff(vid), tol)
        elif self.mode == 'exact':
            self.check(name, True, skipped='derivative obligations are replayed in float mode only')
        else:
            for j in range(wr.size):
                d = np.zeros(wr.size)
                d[j] = h
                col = (np.asarray(fd(d), dtype=float).reshape(-1) - np.asarray(fd(-d), dtype=float).reshape(-1)) / (2 * h)
                for i in range(outs.size):
                    ok = abs(float(J[i, j]) - col[i]) <= max(ftol, 10 * tol) * (1 + abs(col[i]))
                    self.check(f'{name}[{i},{j}]', ok, lhs=repr(float(J[i, j])), rhs=repr(float(col[i])))

    def le(self, name, a, b, tol=0):
        for nm, x, y in self._pairs(name, a, b):
            if self.sym:
                self.check(nm, SR.lift(x) <= SR.lift(y) + (Fraction(tol) if tol else 0))
            else:
                self.check(nm, float(x) <= float(y) + max(10 * tol, self.ftol) * (1 + abs(float(y))),
                           lhs=repr(x), rhs=repr(y))

    def _boxc(self, bound):
        return [And(s >= -bound, s <= bound) for s in self.box]

    def observe(self, name, value):
        self.observed[name] = value

    def raises(self, exc_types, fn, *a, **k):
        """run fn; return the exception instance if one of exc_types was raised, else None.
        (the result of fn is stored in self.last)"""
        try:
            self.last = fn(*a, **k)
            return None
        except exc_types as e:
            return e

    def isym(self, x):
        return isinstance(x, (SR, SI, SC, SB))

    def finish(self):
        return self.obligations, self.observed


def sym_id(s):
    """variable id of an SR that is a plain symbol"""
    if not isinstance(s, SR) or len(s.n.t) != 1 or not s.d.is_const():
        raise ValueError(f'not a plain symbol: {s!r}')
    (m, c), = s.n.t.items()
    if len(m) != 1 or m[0][1] != 1 or c != 1:
        raise ValueError(f'not a plain symbol: {s!r}')
    return m[0][0]


def to_float(x):
    """float of an SR constant / number"""
    if isinstance(x, SR):
        return float(x.const_value())
    return float(x)
