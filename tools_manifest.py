#!/usr/bin/env python3
"""Regenerates MANIFEST.json from checks/*.py (claimed) and the NOT_APPLICABLE table below."""
import importlib.util, json, os, sys, glob
HERE = os.path.dirname(os.path.abspath(__file__))
NOT_APPLICABLE = {
 'C17': "values reach the reader only through pickle/zlib/sqlite3 (C code), variable selection is fnmatch/regex on strings and ordering lives in SQL queries: nothing numeric or integer remains to make symbolic, a solver would only re-enumerate concrete runs",
 'C18': "crash points are inside SQLite's journal/commit protocol and the OS; there is no Python-level state machine to encode and fault injection is a different technique family",
 'C29': "the property is a text round trip: values are written with C float formatting ('%.16g'-style format strings chosen by _getformat via int() truncation), located with regular expressions and re-parsed with pyparsing/float(); none of these steps can carry symbolic reals (formatting and regex matching are C code over concrete strings, int()/float() must return concrete Python numbers), and the remaining pure-Python slivers (_SubHelper word counters) are string bookkeeping with no numeric content to quantify; probing concrete inf/nan values would be testing, not solver-based checking (observed while reading: _getformat raises OverflowError/ValueError for inf/nan - see DESIGN.md section 7 f)",
}
PENDING_REASON = "check not built yet in this session (planned in DESIGN.md section 5); not claimed until its check exists"
ALL = ['C%02d' % i for i in range(1, 35)]

def meta(path):
    src = open(path).read()
    out = {}
    import ast
    tree = ast.parse(src)
    for node in tree.body:
        if isinstance(node, ast.Assign) and len(node.targets) == 1 and isinstance(node.targets[0], ast.Name):
            n = node.targets[0].id
            if n in ('LEVEL', 'EXPLANATION', 'TECHNIQUE', 'LEVEL_NOTE', 'DESIGN_REF', 'ENGINE'):
                try:
                    out[n] = ast.literal_eval(node.value)
                except Exception:
                    pass
    return out

checks = []
claimed = []
for pid in ALL:
    p = os.path.join(HERE, 'checks', pid + '.py')
    if not os.path.exists(p):
        continue
    m = meta(p)
    claimed.append(pid)
    checks.append({
        'property_id': pid,
        'quick_cmd': f'./check {pid} --tier quick',
        'thorough_cmd': f'./check {pid} --tier thorough',
        'evidence_file': f'/verif/evidence/{pid}.json',
        'replay_cmd_template': f'./check {pid} --replay {{path}}',
        'engine': m.get('ENGINE', 'symx'),
        'level_claimed': {'category': m.get('LEVEL', 'model_checking'),
                          'text': m.get('EXPLANATION', ''),
                          'design_ref': m.get('DESIGN_REF', f'DESIGN.md section 5 ({pid})')},
        'level_note': m.get('LEVEL_NOTE', 'Trusted: z3 5.1, NumPy structural operations on object arrays, the np-proxy overrides (self-tested per run), exact rational arithmetic instead of IEEE-754; structures enumerated within the stated bounds.'),
        'technique': m.get('TECHNIQUE', 'symbolic execution of the real Python code on z3-backed proxy values (path-by-path, bounded sizes), obligations decided by z3, counterexamples replayed in float64 on the unmodified code'),
    })
na = []
for pid in ALL:
    if pid in claimed:
        continue
    na.append({'property_id': pid, 'reason': NOT_APPLICABLE.get(pid, PENDING_REASON)})
man = {
 'version': 1,
 'setup_cmd': './setup.sh',
 'hooks': {'guard': 'OPENMDAO_VERIF', 'enable': 'no source hooks: stubs are installed by rebinding module globals from the harness process (OPENMDAO_VERIF is reserved and unused)',
           'baseline_off_cmd': 'cd /repo && /venv/bin/python -m pytest -ra -q -p no:cacheprovider --timeout=900 --continue-on-collection-errors',
           'source_commits': [], 'add_only': True},
 'engines': [
   {'name': 'symx', 'path': '/verif/symx', 'serves_properties': [c for c in claimed],
    'kind_free_text': 'symbolic execution of the real OpenMDAO code by z3-backed proxy scalars in NumPy object arrays; DFS over paths by re-execution; z3 decides branch feasibility and obligations; counterexamples replayed exactly and in float64'},
   {'name': 'crosshair', 'path': '/verif/.venv (crosshair-tool 0.0.110)', 'serves_properties': [],
    'kind_free_text': 'CrossHair symbolic execution (z3) for float-free pure-Python code'}],
 'checks': checks,
 'not_applicable': na,
 'notes': 'See DESIGN.md. Exit codes: 0 held and everything decided; 1 VIOLATION (replayed on the real float code); 3 harness error / inconclusive (never a pass).',
}
json.dump(man, open(os.path.join(HERE, 'MANIFEST.json'), 'w'), indent=1)
print('claimed', claimed)
