"""Bounded program family for whole-framework symbolic runs.

A Prog is built from a *ground-truth dataflow* (which source elements, converted how, feed each
component input) chosen by the generator, and an *encoding* of that dataflow in OpenMDAO terms
(explicit connect at the top or in the common ancestor, promotion chains with src_indices at one
or two levels, auto-IVC or explicit IndepVarComp sources, set_input_defaults).  The reference
evaluator uses only the ground truth and NumPy indexing, never OpenMDAO's name resolution.

Components are polynomial/rational maps described by data (PolySpec) so that their values and
analytic partials are produced by one small evaluator that runs unchanged on floats and proxies."""
from fractions import Fraction

import numpy as np
import openmdao.api as om


def _prod(shape):
    n = 1
    for s in shape:
        n *= s
    return n


# ------------------------------------------------------------------------------------------

def _mk_arr(xp):
    """array constructor for component values: float arrays, but complex values (complex step in a float replay) are kept"""
    def f(a):
        if xp is np:
            r = np.array(a)
            return r if np.iscomplexobj(r) else r.astype(float)
        return xp.array(a, dtype=float)
    return f


class PolySpec:
    """outs[o][k] = sum_t coef_t * prod_f var_f[idx_f]**pow_f  (/ prod den factors)
    terms[o] = list over flat output elements of list of (coef, [(var, idx, pow), ...], [(var, idx), ...])
    For implicit components `var` may also name an output (state)."""

    def __init__(self, ins, outs, terms):
        self.ins = ins          # name -> dict(shape=, units=)
        self.outs = outs        # name -> dict(shape=, units=, ref=, ref0=, res_ref=, lower=, upper=)
        self.terms = terms

    def evaluate(self, vals, xp_array):
        res = {}
        for o, elems in self.terms.items():
            out = []
            for terms in elems:
                s = 0
                for coef, fac, den in terms:
                    t = coef
                    for v, i, p in fac:
                        x = vals[v].reshape(-1)[i]
                        t = t * (x ** p if p != 1 else x)
                    for v, i in den:
                        t = t / vals[v].reshape(-1)[i]
                    s = s + t
                out.append(s)
            res[o] = xp_array(out).reshape(self.outs[o]['shape'])
        return res

    def partials(self, vals):
        """{(o, v): {(row, col): value}} for every structural dependency"""
        J = {}
        for o, elems in self.terms.items():
            for r, terms in enumerate(elems):
                for coef, fac, den in terms:
                    # d/d numerator factors
                    for k, (v, i, p) in enumerate(fac):
                        t = coef * p
                        x = vals[v].reshape(-1)[i]
                        if p > 1:
                            t = t * (x ** (p - 1) if p > 2 else x)
                        for k2, (v2, i2, p2) in enumerate(fac):
                            if k2 != k:
                                x2 = vals[v2].reshape(-1)[i2]
                                t = t * (x2 ** p2 if p2 != 1 else x2)
                        for v2, i2 in den:
                            t = t / vals[v2].reshape(-1)[i2]
                        d = J.setdefault((o, v), {})
                        d[(r, i)] = d.get((r, i), 0) + t
                    for k, (v, i) in enumerate(den):
                        t = -coef
                        for v2, i2, p2 in fac:
                            x2 = vals[v2].reshape(-1)[i2]
                            t = t * (x2 ** p2 if p2 != 1 else x2)
                        for v2, i2 in den:
                            t = t / vals[v2].reshape(-1)[i2]
                        t = t / vals[v].reshape(-1)[i]
                        d = J.setdefault((o, v), {})
                        d[(r, i)] = d.get((r, i), 0) + t
        return J

    def pattern(self):
        pat = {}
        for o, elems in self.terms.items():
            for r, terms in enumerate(elems):
                for coef, fac, den in terms:
                    for v, i, p in fac:
                        pat.setdefault((o, v), set()).add((r, i))
                    for v, i in den:
                        pat.setdefault((o, v), set()).add((r, i))
        return {k: sorted(s) for k, s in pat.items()}

    def size(self, v):
        d = self.ins.get(v) or self.outs[v]
        return _prod(d['shape'])


def _declare(comp, spec, style):
    pat = spec.pattern()
    drop = getattr(spec, 'drop', {})
    if drop:
        # deliberately under-declared sparsity (C13): the listed structural nonzeros are left out of the declaration
        pat = {k: [rc for rc in nz if rc not in drop.get(k, ())] for k, nz in pat.items()}
    for (o, v), nz in pat.items():
        if isinstance(style, str) and style.startswith('approx:'):
            # partials approximated by the framework: approx:<method>:<form>:<step_calc>:<step>
            _, method, form, step_calc, step = style.split(':')
            kw = dict(method=method)
            if method == 'fd':
                kw.update(form=form, step_calc=step_calc, step=float(step))
            else:
                kw.update(step=float(step))
            comp.declare_partials(o, v, **kw)
            continue
        if style == 'const':
            # linear components only: constant partials declared once with rows/cols/val and never set again
            P = spec.partials({n: np.ones(m['shape']) for n, m in list(spec.ins.items()) + list(spec.outs.items())})
            d = P.get((o, v), {})
            comp.declare_partials(o, v, rows=[r for r, c in nz], cols=[c for r, c in nz], val=[float(d.get(rc, 0)) for rc in nz])
            continue
        if style in ('sp_coo', 'sp_csr', 'sp_csc') and nz:
            # partial declared with a scipy.sparse value of that format; compute_partials later supplies the data array in the
            # order of that matrix's own storage
            import scipy.sparse as sp
            rows = [r for r, c in nz]
            cols = [c for r, c in nz]
            M = sp.coo_matrix((np.arange(1, len(nz) + 1, dtype=float), (rows, cols)), shape=(spec.size(o), spec.size(v)))
            M = {'sp_coo': M, 'sp_csr': M.tocsr(), 'sp_csc': M.tocsc()}[style]
            C = M.tocoo()
            comp.__dict__.setdefault('_sp_order', {})[(o, v)] = list(zip(C.row.tolist(), C.col.tolist())) if style == 'sp_coo' else \
                _storage_order(M)
            comp.declare_partials(o, v, val=M)
            continue
        if style in ('sparse', 'sparse_dup'):
            rows = [r for r, c in nz]
            cols = [c for r, c in nz]
            if style == 'sparse_dup' and nz:
                # a duplicated (row, col) entry: values must accumulate
                rows = rows + [rows[0]]
                cols = cols + [cols[0]]
            comp.declare_partials(o, v, rows=rows, cols=cols)
        elif style == 'mf':
            pass
        else:
            comp.declare_partials(o, v)
    comp._pat = pat


def _storage_order(M):
    """(row, col) of every stored entry of a scipy CSR/CSC matrix in the order of its .data array"""
    out = []
    for j in range(len(M.indptr) - 1):
        for p in range(M.indptr[j], M.indptr[j + 1]):
            out.append((j, int(M.indices[p])) if M.format == 'csr' else (int(M.indices[p]), j))
    return out


def _fill(comp, spec, style, vals, J, xp):
    if style == 'const' or (isinstance(style, str) and style.startswith('approx:')):
        return
    P = spec.partials(vals)
    if style in ('sp_coo', 'sp_csr', 'sp_csc'):
        # a partial declared with a scipy.sparse value is set with a sparse matrix of the same format
        if xp is np:
            import scipy.sparse as SPM
        else:
            from symx import sparse as SPM
        cls = {'sp_coo': SPM.coo_matrix, 'sp_csr': SPM.csr_matrix, 'sp_csc': SPM.csc_matrix}[style]
        for (o, v), nz in comp._pat.items():
            d = P.get((o, v), {})
            if nz:
                data = xp.array([d.get(rc, 0) for rc in nz], dtype=float)
                J[o, v] = cls((data, ([r for r, c in nz], [c for r, c in nz])), shape=(spec.size(o), spec.size(v)))
        return
    for (o, v), nz in comp._pat.items():
        d = P.get((o, v), {})
        if style in ('sparse', 'sparse_dup'):
            data = [d.get(rc, 0) for rc in nz]
            if style == 'sparse_dup' and nz:
                half = data[0] / 2
                data = [half] + data[1:] + [half]
            J[o, v] = xp.array(data, dtype=float)
        else:
            M = xp.zeros((spec.size(o), spec.size(v)))
            for (r, c), val in d.items():
                M[r, c] = val
            J[o, v] = M


def _add_io(comp, spec, xp):
    for n, m in spec.ins.items():
        comp.add_input(n, val=xp.ones(m['shape']), units=m.get('units'))
    for n, m in spec.outs.items():
        kw = {k: m[k] for k in ('ref', 'ref0', 'res_ref', 'lower', 'upper') if m.get(k) is not None}
        comp.add_output(n, val=xp.ones(m['shape']), units=m.get('units'), **kw)


class PolyComp(om.ExplicitComponent):
    def __init__(self, spec, xp, style='dense'):
        super().__init__()
        self._s, self._xp, self._style = spec, xp, style

    def setup(self):
        _add_io(self, self._s, self._xp)
        _declare(self, self._s, self._style)

    def compute(self, inputs, outputs):
        vals = {n: inputs[n] for n in self._s.ins}
        if getattr(self, '_probe', None) is not None:
            self._probe.append({self.pathname + '.' + n: v.copy() for n, v in vals.items()})
        for o, v in self._s.evaluate(vals, _mk_arr(self._xp)).items():
            outputs[o] = v

    def compute_partials(self, inputs, J):
        if self._style == 'mf':
            return
        _fill(self, self._s, self._style, {n: inputs[n] for n in self._s.ins}, J, self._xp)


class PolyCompMF(PolyComp):
    """matrix-free twin (a separate class: defining compute_jacvec_product makes a component matrix-free)"""

    def compute_jacvec_product(self, inputs, d_inputs, d_outputs, mode):
        P = self._s.partials({n: inputs[n] for n in self._s.ins})
        for (o, v), d in P.items():
            if o in d_outputs and v in d_inputs:
                do = d_outputs[o].reshape(-1)
                di = d_inputs[v].reshape(-1)
                for (r, c), val in d.items():
                    if mode == 'fwd':
                        do[r] += val * di[c]
                    else:
                        di[c] += val * do[r]


class PolyImp(om.ImplicitComponent):
    """R_o = terms over inputs and outputs (states); no solve_nonlinear: the harness supplies the
    (symbolic) state and assumes R = 0."""

    def __init__(self, spec, xp, style='dense'):
        super().__init__()
        self._s, self._xp, self._style = spec, xp, style

    def setup(self):
        _add_io(self, self._s, self._xp)
        _declare(self, self._s, 'dense' if self._style == 'mf' else self._style)

    def _vals(self, inputs, outputs):
        vals = {n: inputs[n] for n in self._s.ins}
        vals.update({n: outputs[n] for n in self._s.outs})
        return vals

    def apply_nonlinear(self, inputs, outputs, residuals):
        for o, v in self._s.evaluate(self._vals(inputs, outputs), _mk_arr(self._xp)).items():
            residuals[o] = v

    def linearize(self, inputs, outputs, J):
        _fill(self, self._s, 'dense' if self._style == 'mf' else self._style, self._vals(inputs, outputs), J, self._xp)


# ------------------------------------------------------------------------------------------
class Var:
    def __init__(self, abs_name, shape, units, owner=None):
        self.abs = abs_name
        self.shape = tuple(shape)
        self.units = units
        self.owner = owner


class In:
    """ground truth for one component input: value = convert(src[chain...]) reshaped to `shape`.
    chain: list of (index, flat) applied outward from the source; via: how it is encoded."""

    def __init__(self, src, chain=(), shape=None, units=None, via='connect'):
        self.src = src
        self.chain = list(chain)
        self.shape = tuple(shape) if shape is not None else None
        self.units = units
        self.via = via


def apply_chain(a, chain):
    for idx, flat in chain:
        a = a.reshape(-1)[idx] if flat else a[idx]
        a = np.asarray(a) if not isinstance(a, np.ndarray) else a
    return a


class Prog:
    def __init__(self, name):
        self.name = name
        self.items = []          # ('ivc', group, cname, Var, kind) | ('comp', group, cname, spec, ins, style, implicit)
        self.indeps = []         # Vars that are independent (explicit IVC outputs or auto-IVC promoted names)
        self.auto = {}           # promoted name -> Var (auto ivc)
        self.defaults = {}       # promoted name -> kwargs for set_input_defaults
        self.group_opts = {}     # group path -> dict(linear_solver=..., assembled=...)
        self.desvars = []        # (name, kwargs)
        self.responses = []      # (name, kwargs, kind)

    # ---- construction of the ground truth
    def indep(self, name, shape, units=None, kind='auto', group=''):
        if kind == 'ivc':
            v = Var((group + '.' if group else '') + f'ivc_{name}.{name}', shape, units)
            self.items.append(('ivc', group, f'ivc_{name}', v, name))
        else:
            v = Var(name, shape, units)      # addressed by its top-level promoted name
            self.auto[name] = v
        v.indep = kind
        self.indeps.append(v)
        return v

    def comp(self, name, group, ins, outs, terms, style='dense', implicit=False):
        spec = PolySpec({n: dict(shape=i.shape, units=i.units) for n, i in ins.items()}, outs, terms)
        path = (group + '.' if group else '') + name
        self.items.append(('comp', group, name, spec, ins, style, implicit))
        return {o: Var(path + '.' + o, m['shape'], m.get('units'), owner=path) for o, m in outs.items()}

    # ---- build the OpenMDAO problem
    def build(self, ctx, **setup_kw):
        xp = ctx.np
        p = om.Problem()
        groups = {'': p.model}

        def grp(path):
            if path not in groups:
                parent, _, nm = path.rpartition('.')
                g = grp(parent).add_subsystem(nm, om.Group())
                groups[path] = g
            return groups[path]
        comps = {}
        order = getattr(self, 'add_order', None) or range(len(self.items))
        for it in [self.items[i] for i in order]:
            if it[0] == 'ivc':
                _, g, cname, v, oname = it
                c = om.IndepVarComp()
                c.add_output(oname, val=xp.ones(v.shape), units=v.units)
                grp(g).add_subsystem(cname, c)
            else:
                _, g, cname, spec, ins, style, implicit = it
                c = (PolyImp if implicit else (PolyCompMF if style == 'mf' else PolyComp))(spec, xp, style)
                grp(g).add_subsystem(cname, c)
                comps[(g + '.' if g else '') + cname] = c
        # wiring
        for it in self.items:
            if it[0] != 'comp':
                continue
            _, g, cname, spec, ins, style, implicit = it
            cpath = (g + '.' if g else '') + cname
            for iname, inp in ins.items():
                self._wire(p, groups, cpath, iname, inp)
        for name, kw in self.defaults.items():
            kw = dict(kw)
            if isinstance(kw.get('val'), str):
                kw['val'] = xp.ones(self.auto[name].shape)
            p.model.set_input_defaults(name, **kw)
        for path, opts in self.group_opts.items():
            gobj = groups[path]
            if 'linear_solver' in opts:
                gobj.linear_solver = opts['linear_solver']()
            if 'nonlinear_solver' in opts:
                gobj.nonlinear_solver = opts['nonlinear_solver']()
            if 'assembled_jac_type' in opts:
                gobj.options['assembled_jac_type'] = opts['assembled_jac_type']
        for name, kw in self.desvars:
            p.model.add_design_var(name, **kw)
        for name, kw, kind in self.responses:
            if kind == 'obj':
                p.model.add_objective(name, **kw)
            else:
                p.model.add_constraint(name, **kw)
        if getattr(self, 'auto_order', False):
            for g in groups.values():
                g.options['auto_order'] = True
        if getattr(self, 'pre_setup', None):
            self.pre_setup(p, groups, comps)
        p.setup(**setup_kw)
        self._p = p
        self._comps = comps
        return p

    def _wire(self, p, groups, cpath, iname, inp):
        src = inp.src
        tgt = cpath + '.' + iname
        chain = inp.chain
        if inp.via == 'connect':
            assert len(chain) <= 1
            kw = {}
            if chain:
                kw = dict(src_indices=chain[0][0], flat_src_indices=chain[0][1])
            p.model.connect(src.abs, tgt, **kw)
        elif inp.via == 'connect_local':
            # issued in the lowest common ancestor with relative names
            a, b = src.abs.split('.'), tgt.split('.')
            k = 0
            while k < min(len(a), len(b)) - 1 and a[k] == b[k]:
                k += 1
            anc = '.'.join(a[:k])
            kw = {}
            if chain:
                kw = dict(src_indices=chain[0][0], flat_src_indices=chain[0][1])
            groups[anc].connect('.'.join(a[k:]), '.'.join(b[k:]), **kw)
        elif inp.via == 'promote':
            # promote the input up to the top under the source's promoted name; index i of the chain is
            # attached at level i counted from the TOP (chain is applied outward from the source)
            pname = getattr(src, 'prom', None) or src.abs.split('.')[-1]
            parts = cpath.split('.')
            nlev = len(parts)
            assert len(chain) <= nlev
            levels = [None] * nlev
            for k, c in enumerate(chain):
                levels[k] = c
            for depth in range(nlev, 0, -1):       # innermost first
                parent = '.'.join(parts[:depth - 1])
                child = parts[depth - 1]
                nm = (iname, pname) if depth == nlev and iname != pname else pname
                kw = {}
                c = levels[depth - 1]
                if c is not None:
                    kw = dict(src_indices=c[0], flat_src_indices=c[1])
                    if getattr(inp, 'src_shape', True):
                        shp = src.shape
                        for cc in chain[:depth - 1]:
                            shp = np.empty(shp)[...].reshape(-1)[cc[0]].shape if cc[1] else np.empty(shp)[cc[0]].shape
                        kw['src_shape'] = shp
                groups[parent].promotes(child, inputs=[nm], **kw)
            if getattr(src, 'indep', None) != 'auto':
                # the source output must be promoted to the top under the same name
                sparts = src.abs.split('.')
                for depth in range(len(sparts) - 1, 0, -1):
                    parent = '.'.join(sparts[:depth - 1])
                    child = sparts[depth - 1]
                    nm = (sparts[-1], pname) if depth == len(sparts) - 1 and sparts[-1] != pname else pname
                    key = (parent, child, pname)
                    if key not in self.__dict__.setdefault('_promoted', set()):
                        self._promoted.add(key)
                        groups[parent].promotes(child, outputs=[nm])
        else:
            raise ValueError(inp.via)

    # ---- values
    def set_indeps(self, ctx, p, tag='x', lo=-10, hi=10):
        """symbolic (or replayed) values for every independent variable, set through the public API"""
        vals = {}
        for v in self.indeps:
            a = ctx.reals(f'{tag}_{v.abs.replace(".", "_")}', v.shape, lo, hi)
            p.set_val(v.abs, a)
            vals[v.abs] = a
        return vals

    def reference(self, ctx, vals, states=None, tol_units=True):
        """ground-truth evaluation in the order components were added (explicit feed-forward); returns
        (values of all outputs by abs name, expected value of every component input by abs name,
        residuals of implicit components)"""
        from openmdao.utils.units import unit_conversion
        out = dict(vals)
        exp_in = {}
        resid = {}
        arr = (lambda a: ctx.array(a)) if ctx.sym else _mk_arr(np)
        for it in self.items:
            if it[0] != 'comp':
                continue
            _, g, cname, spec, ins, style, implicit = it
            cpath = (g + '.' if g else '') + cname
            ivals = {}
            for iname, inp in ins.items():
                a = apply_chain(out[inp.src.abs], inp.chain)
                a = np.asarray(a).reshape(inp.shape)
                if inp.units and inp.src.units and inp.units != inp.src.units:
                    f, o = unit_conversion(inp.src.units, inp.units)
                    a = (a + ctx.const(o)) * ctx.const(f)
                ivals[iname] = a
                exp_in[cpath + '.' + iname] = a
            if implicit:
                sv = {o: states[cpath + '.' + o] for o in spec.outs}
                allv = dict(ivals)
                allv.update(sv)
                r = spec.evaluate(allv, arr)
                for o in spec.outs:
                    out[cpath + '.' + o] = sv[o]
                    resid[cpath + '.' + o] = r[o]
            else:
                r = spec.evaluate(ivals, arr)
                for o in spec.outs:
                    out[cpath + '.' + o] = r[o]
        return out, exp_in, resid

    def uses_units(self):
        for it in self.items:
            if it[0] == 'comp':
                for inp in it[4].values():
                    if inp.units and inp.src.units and inp.units != inp.src.units:
                        return True
        return False
