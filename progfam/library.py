"""Concrete members of the program family.  Each builder returns a Prog with .ofs / .wrts set
(abs or promoted names usable with compute_totals) and a short .features list."""
from fractions import Fraction as Fr

import numpy as np
import openmdao.api as om

from .core import Prog, In


def T(c, *fac, den=()):
    return (c, list(fac), list(den))


def _direct(assemble=None):
    def f():
        s = om.DirectSolver()
        if assemble is not None:
            s.options['assemble_jac'] = assemble
        return s
    return f


# terms for a generic 3->2 quadratic map, 2->2 map, etc. ------------------------------------------------
def q32(v):      # 3 inputs -> 2 outputs
    return [[T(1, (v, 0, 1), (v, 1, 1)), T(2, (v, 2, 1))],
            [T(1, (v, 1, 2)), T(-1, (v, 0, 1)), T(3, (v, 2, 1))]]


def q33(v):
    return [[T(1, (v, 0, 1), (v, 1, 1))], [T(1, (v, 1, 1)), T(2, (v, 2, 1))], [T(1, (v, 2, 2)), T(Fr(1, 2), (v, 0, 1))]]


def q22(v):
    return [[T(1, (v, 0, 1), (v, 1, 1)), T(1, (v, 0, 1))], [T(3, (v, 1, 1)), T(-2, (v, 0, 2))]]


def q2s(v):      # 2 -> scalar
    return [[T(1, (v, 0, 2)), T(1, (v, 0, 1), (v, 1, 1)), T(-4, (v, 1, 1))]]


def lin(v, n, m, seed=1):
    """m x n integer matrix map"""
    rng = np.random.default_rng(seed)
    A = rng.integers(-3, 4, size=(m, n))
    out = []
    for r in range(m):
        row = [T(int(A[r, c]), (v, c, 1)) for c in range(n) if A[r, c] != 0]
        out.append(row or [T(1, (v, r % n, 1))])
    return out


# ------------------------------------------------------------------------------------------------
def basic(style1='dense', style2='sparse', scaled=False):
    P = Prog('basic')
    a = P.indep('a', (3,), kind='ivc')
    kw = dict(ref=Fr(-3, 2), ref0=Fr(2), res_ref=Fr(5, 2)) if scaled else {}
    c1 = P.comp('c1', '', {'x': In(a, shape=(3,))}, {'y': dict(shape=(3,), **kw)}, {'y': q33('x')}, style1)
    kw2 = dict(ref=np.array([Fr(7), Fr(-2)], dtype=object), ref0=np.array([Fr(-1, 3), Fr(1)], dtype=object)) if scaled else {}
    c2 = P.comp('c2', '', {'u': In(c1['y'], shape=(3,))}, {'z': dict(shape=(2,), **kw2)}, {'z': q32('u')}, style2)
    P.ofs, P.wrts = [c2['z'].abs], [a.abs]
    P.features = ['ivc', 'connect', style1, style2] + (['ref/ref0/res_ref'] if scaled else [])
    return P


def idx_flat(scaled=True):
    """2-D source, flat src_indices with negatives, duplicate entries, local connect inside a group"""
    P = Prog('idx_flat')
    a = P.indep('a', (2, 3), kind='ivc')
    kw = dict(ref=np.array([Fr(2), Fr(-1), Fr(1, 2)], dtype=object), ref0=np.array([Fr(1), Fr(3), Fr(0)], dtype=object)) if scaled else {}
    c1 = P.comp('c1', 'g', {'x': In(a, [([5, 0, -2], True)], shape=(3,))}, {'y': dict(shape=(3,), **kw)}, {'y': q33('x')}, 'sparse')
    c2 = P.comp('c2', 'g', {'u': In(c1['y'], [([2, 0, 2], True)], shape=(3,), via='connect_local')}, {'z': dict(shape=(2,))},
                {'z': q32('u')}, 'dense')
    P.ofs, P.wrts = [c2['z'].abs, c1['y'].abs], [a.abs]
    P.features = ['2-D source', 'flat src_indices', 'negative index', 'duplicate src index', 'connect in group', 'rows/cols sparse']
    return P


def idx_nonflat():
    """non-flat tuple index (slice, list) into a 2-D source; promotion through nested groups"""
    P = Prog('idx_nonflat')
    a = P.indep('a', (2, 3), kind='ivc')
    c1 = P.comp('c1', '', {'x': In(a, [((slice(None), [0, 2]), False)], shape=(2, 2))}, {'y': dict(shape=(2,))},
                {'y': [[T(1, ('x', 0, 1), ('x', 3, 1)), T(1, ('x', 1, 1))], [T(2, ('x', 2, 1)), T(1, ('x', 1, 2))]]}, 'sparse')
    y = c1['y']
    y.prom = 'yy'
    c2 = P.comp('c2', 'g1.g2', {'u': In(y, shape=(2,), via='promote')}, {'z': dict(shape=(2,))}, {'z': q22('u')}, 'dense')
    P.ofs, P.wrts = [c2['z'].abs], [a.abs]
    P.features = ['non-flat tuple index', 'slice+list', 'promotion chain depth 2', 'promote-as']
    return P


def auto_units():
    """auto-IVC source shared by two inputs with different units and src_indices given on promotes"""
    P = Prog('auto_units')
    a = P.indep('a', (4,), units='m', kind='auto')
    c1 = P.comp('c1', 'g1', {'x': In(a, [([0, 2, -1], True)], shape=(3,), units='cm', via='promote')}, {'y': dict(shape=(2,), units='cm')},
                {'y': q32('x')}, 'dense')
    c2 = P.comp('c2', 'g2.g3', {'w': In(a, [(slice(1, None), True)], shape=(3,), units='mm', via='promote')}, {'z': dict(shape=(3,))},
                {'z': q33('w')}, 'sparse')
    c3 = P.comp('c3', '', {'p': In(c1['y'], shape=(2,), units='m'), 'q': In(c2['z'], [([0, 2], True)], shape=(2,))}, {'f': dict(shape=(1,))},
                {'f': [[T(1, ('p', 0, 1), ('q', 1, 1)), T(1, ('p', 1, 1)), T(-1, ('q', 0, 2))]]}, 'dense')
    P.defaults['a'] = dict(units='m', val='ones')
    P.ofs, P.wrts = [c3['f'].abs, c2['z'].abs], ['a']
    P.features = ['auto-IVC', 'set_input_defaults', 'units factor (m/cm/mm)', 'src_indices on promotes', 'slice index', 'two targets one source']
    return P


def promote_chain():
    """src_indices at two promotion levels (composition of index arrays), 2-D source"""
    P = Prog('promote_chain')
    a = P.indep('a', (3, 2), kind='auto')
    c1 = P.comp('c1', 'g1.g2', {'x': In(a, [([5, 0, 3, -2], True), ([3, 0], True)], shape=(2,), via='promote')}, {'y': dict(shape=(2,))},
                {'y': q22('x')}, 'dense')
    P.defaults['a'] = dict(val='ones32')
    P.ofs, P.wrts = [c1['y'].abs], ['a']
    P.features = ['auto-IVC', 'src_indices at two promotion levels', '2-D source']
    return P


def matfree():
    P = Prog('matfree')
    a = P.indep('a', (3,), kind='ivc')
    c1 = P.comp('c1', '', {'x': In(a, shape=(3,))}, {'y': dict(shape=(3,))}, {'y': q33('x')}, 'mf')
    c2 = P.comp('c2', '', {'u': In(c1['y'], [(slice(None, None, -1), False)], shape=(3,))}, {'z': dict(shape=(2,))}, {'z': q32('u')}, 'sparse')
    P.ofs, P.wrts = [c2['z'].abs], [a.abs]
    P.features = ['matrix-free compute_jacvec_product', 'negative-step slice']
    return P


def temp_offset():
    P = Prog('temp_offset')
    a = P.indep('a', (2,), units='degC', kind='ivc')
    c1 = P.comp('c1', '', {'x': In(a, shape=(2,), units='degF')}, {'y': dict(shape=(2,), units='degK')}, {'y': q22('x')}, 'dense')
    c2 = P.comp('c2', '', {'u': In(c1['y'], shape=(2,), units='degR')}, {'z': dict(shape=(1,))}, {'z': q2s('u')}, 'dense')
    P.ofs, P.wrts = [c2['z'].abs], [a.abs]
    P.features = ['offset units degC->degF', 'degK->degR']
    return P


def branches():
    """two responses, two design variables, a dead branch and a branch irrelevant to one response"""
    P = Prog('branches')
    a = P.indep('a', (2,), kind='ivc')
    b = P.indep('b', (2,), kind='ivc')
    c1 = P.comp('c1', '', {'x': In(a, shape=(2,))}, {'y': dict(shape=(2,))}, {'y': q22('x')}, 'dense')
    c2 = P.comp('c2', '', {'x': In(b, shape=(2,))}, {'y': dict(shape=(2,))}, {'y': q22('x')}, 'sparse')
    c3 = P.comp('c3', 'g', {'p': In(c1['y'], shape=(2,)), 'q': In(c2['y'], shape=(2,))}, {'f': dict(shape=(1,))},
                {'f': [[T(1, ('p', 0, 1), ('q', 1, 1)), T(2, ('p', 1, 1))]]}, 'dense')
    c4 = P.comp('c4', 'g', {'u': In(c1['y'], [([1], True)], shape=(1,))}, {'h': dict(shape=(1,))}, {'h': [[T(1, ('u', 0, 2))]]}, 'dense')
    dead = P.comp('dead', '', {'u': In(c2['y'], shape=(2,))}, {'d': dict(shape=(2,))}, {'d': q22('u')}, 'dense')
    P.ofs, P.wrts = [c3['f'].abs, c4['h'].abs], [a.abs, b.abs]
    P.features = ['two responses', 'two design variables', 'dead branch', 'response independent of a design variable']
    return P


def ratio():
    P = Prog('ratio')
    a = P.indep('a', (3,), kind='ivc')
    c1 = P.comp('c1', '', {'x': In(a, shape=(3,))}, {'y': dict(shape=(2,))},
                {'y': [[T(1, ('x', 0, 1), den=[('x', 1)])], [T(2, ('x', 2, 1), ('x', 0, 1), den=[('x', 1)]), T(1, ('x', 1, 1))]]}, 'dense')
    c2 = P.comp('c2', '', {'u': In(c1['y'], shape=(2,))}, {'z': dict(shape=(1,))}, {'z': q2s('u')}, 'dense')
    P.ofs, P.wrts = [c2['z'].abs], [a.abs]
    P.features = ['rational component']
    return P


def implicit(assemble=None, fmt=None):
    """explicit -> implicit (2 coupled states, DirectSolver) -> explicit; state is supplied symbolically"""
    P = Prog('implicit')
    a = P.indep('a', (2,), kind='ivc')
    c1 = P.comp('c1', '', {'x': In(a, shape=(2,))}, {'y': dict(shape=(2,))}, {'y': q22('x')}, 'dense')
    terms = {'s': [[T(1, ('s', 0, 2)), T(1, ('v', 0, 1), ('s', 1, 1)), T(-3, ('v', 1, 1))],
                   [T(2, ('s', 1, 1)), T(1, ('v', 1, 1), ('s', 0, 1)), T(-1, ('v', 0, 1))]]}
    imp = P.comp('imp', 'g', {'v': In(c1['y'], shape=(2,))}, {'s': dict(shape=(2,))}, terms, 'dense', implicit=True)
    c2 = P.comp('c2', 'g', {'u': In(imp['s'], shape=(2,), via='connect_local')}, {'z': dict(shape=(1,))}, {'z': q2s('u')}, 'sparse')
    P.group_opts['g'] = dict(linear_solver=_direct(assemble))
    if fmt:
        P.group_opts['g']['assembled_jac_type'] = fmt
    P.ofs, P.wrts = [c2['z'].abs, imp['s'].abs], [a.abs]
    P.states = [imp['s']]
    P.features = ['implicit component', 'DirectSolver', f'assemble_jac={assemble}']
    return P


def units_ref0(ref=None, offset_units=False):
    """solver scaling with a nonzero ref0 on a source whose consumer converts units WITHOUT an offset (m->cm): nothing
    else in the model needs an additive scaling term"""
    P = Prog('units_ref0')
    a = P.indep('a', (2,), kind='ivc')
    kw = dict(ref0=Fr(3)) if ref is None else dict(ref=ref, ref0=Fr(3))
    c1 = P.comp('c1', '', {'x': In(a, shape=(2,))}, {'y': dict(shape=(2,), units='m', **kw)}, {'y': q22('x')}, 'dense')
    c2 = P.comp('c2', 'g', {'u': In(c1['y'], [([-1, 0], True)], shape=(2,), units='cm')}, {'z': dict(shape=(2,))}, {'z': q22('u')}, 'sparse')
    P.ofs, P.wrts = [c2['z'].abs], [a.abs]
    P.features = ['ref0 on a source + offset-free unit conversion on its consumer', 'negative flat index']
    return P


def asm_units(fmt='dense'):
    """a group with an assembled jacobian (DirectSolver) whose INTERNAL connection converts units, between linear components whose
    partials are constant and declared once with rows/cols/val"""
    P = Prog('asm_units')
    a = P.indep('a', (2,), kind='ivc')
    c0 = P.comp('c0', '', {'x': In(a, shape=(2,))}, {'y': dict(shape=(2,))}, {'y': q22('x')}, 'dense')
    c1 = P.comp('c1', 'g', {'x': In(c0['y'], shape=(2,))}, {'y': dict(shape=(2,), units='m')},
                {'y': [[T(2, ('x', 0, 1)), T(-1, ('x', 1, 1))], [T(3, ('x', 1, 1))]]}, 'const')
    c2 = P.comp('c2', 'g', {'u': In(c1['y'], shape=(2,), units='cm', via='connect_local')}, {'z': dict(shape=(2,))},
                {'z': [[T(1, ('u', 0, 1)), T(4, ('u', 1, 1))], [T(-2, ('u', 0, 1))]]}, 'const')
    c3 = P.comp('c3', '', {'w': In(c2['z'], shape=(2,))}, {'f': dict(shape=(1,))}, {'f': q2s('w')}, 'dense')
    P.group_opts['g'] = dict(linear_solver=_direct(True), assembled_jac_type=fmt)
    P.ofs, P.wrts = [c3['f'].abs, c2['z'].abs], [a.abs]
    P.features = ['assembled jacobian ' + fmt, 'unit conversion on a connection inside the assembled group', 'constant rows/cols partials']
    return P


def rhs_redundant():
    """rev-mode cache of adjoint solutions (DirectSolver rhs_checking): response w = -3 z depends on response z, both through group g"""
    P = Prog('rhs_redundant')
    a = P.indep('a', (2,), kind='ivc')
    c0 = P.comp('c0', '', {'x': In(a, shape=(2,))}, {'y': dict(shape=(2,))}, {'y': q22('x')}, 'dense')
    c1 = P.comp('c1', 'g', {'x': In(c0['y'], shape=(2,))}, {'y': dict(shape=(2,))},
                {'y': [[T(2, ('x', 0, 1)), T(-1, ('x', 1, 1))], [T(3, ('x', 1, 1)), T(1, ('x', 0, 1))]]}, 'const')
    c2 = P.comp('c2', 'g', {'u': In(c1['y'], shape=(2,), via='connect_local')}, {'z': dict(shape=(1,))},
                {'z': [[T(1, ('u', 0, 1)), T(4, ('u', 1, 1))]]}, 'const')
    c3 = P.comp('c3', '', {'v': In(c2['z'], shape=(1,))}, {'w': dict(shape=(1,))}, {'w': [[T(-3, ('v', 0, 1))]]}, 'const')
    P.group_opts['g'] = dict(linear_solver=lambda: om.DirectSolver(rhs_checking=True))
    P.ofs, P.wrts = [c2['z'].abs, c3['w'].abs], [a.abs]
    P.desvars = [(a.abs, {})]
    P.responses = [(c2['z'].abs, {}, 'obj'), (c3['w'].abs, dict(upper=0.0), 'con')]
    P.features = ['DirectSolver rhs_checking', 'redundant adjoint solves: anti-parallel right-hand sides with ratio -3']
    return P


LIBRARY = {
    'asm_units_dense': lambda: asm_units('dense'), 'asm_units_csc': lambda: asm_units('csc'), 'rhs_redundant': rhs_redundant,
    'units_ref0': units_ref0, 'units_ref_ref0': lambda: units_ref0(ref=Fr(-2)),
    'basic': basic, 'basic_scaled': lambda: basic(scaled=True), 'basic_mf_sparse': lambda: basic('mf', 'sparse'),
    'idx_flat': idx_flat, 'idx_nonflat': idx_nonflat, 'auto_units': auto_units, 'promote_chain': promote_chain,
    'matfree': matfree, 'temp_offset': temp_offset, 'branches': branches, 'ratio': ratio,
}
IMPLICIT = {'implicit': implicit, 'implicit_asm': lambda: implicit(True), 'implicit_dense': lambda: implicit(True, 'dense')}
# (DirectSolver refuses CSR assembled jacobians by design: 'Direct solver not implemented for matrix type csr'; CSR is exercised in C11)


# ------------------------------------------------------------------------------------------------
# index-form family (thorough tier of C04): one source, one consumer, every NumPy index form the
# connection API documents, each wired by connect or by promotes(src_indices=...), with and without
# a unit conversion on the connection.  (A 2-D array of flat indices is not in the family: OpenMDAO reads a
# nested sequence as a multi-dimensional indexer and rejects it at setup with a deprecation warning.)
IDX_FORMS = [
    ((6,), [0, -1, 3, 3], True),
    ((6,), slice(None, None, -2), True),
    ((6,), slice(-2, None), True),
    ((6,), slice(4, 0, -1), True),
    ((3, 2), slice(1, 5, 2), True),
    ((2, 3), [-6, 5], True),
    ((2, 3), (slice(None), [0, 2]), False),
    ((2, 3), ([1, 0, -1], [0, -1, 1]), False),
    ((2, 3), (-1, slice(None)), False),
    ((2, 3), (slice(None, None, -1), slice(1, None)), False),
    ((2, 3), (Ellipsis, 1), False),
    # index arrays that are not monotonic although their first/last entries are the min/max of a contiguous span
    ((2, 3), [0, 3, 1, 4, 2, 5], True),       # flat transpose of the 2-D source
    ((6,), [2, 4, 3, 5], True),               # interior permutation
    ((6,), [1, 2, 2, 4], True),               # repeated interior entry
    ((6,), [4, 2, 3, 1], True),               # descending ends, permuted inside
    # a bare int / a 1-D int array (with a negative entry) into a NON-flat 2-D source selects whole rows
    ((3, 2), 1, False),
    ((3, 2), [0, -1], False),
    ((3, 2), [2, 0], False),
]
QUICK_FORMS = [11, 12, 13, 14, 15, 16, 17]
IDX_UNITS = {'none': (None, None), 'len': ('m', 'cm'), 'temp': ('degC', 'degF')}


def idx_form(k, via='connect', units='none'):
    shape, idx, flat = IDX_FORMS[k]
    su, tu = IDX_UNITS[units]
    P = Prog(f'idx_form{k}_{via}_{units}')
    a = P.indep('a', shape, units=su, kind='ivc' if via == 'connect' else 'auto')
    probe = np.empty(shape)
    ishape = (probe.reshape(-1)[idx] if flat else probe[idx]).shape
    n = int(np.prod(ishape))
    terms = {'y': [[T(1, ('x', j, 1), ('x', (j + 1) % n, 1)), T(j + 2, ('x', j, 1))] for j in range(n)]}
    c1 = P.comp('c1', '' if via == 'connect' else 'g', {'x': In(a, [(idx, flat)], shape=ishape, units=tu, via=via)},
                {'y': dict(shape=(n,))}, terms, 'dense')
    if via != 'connect':
        P.defaults['a'] = dict(units=su, val='ones')
    P.ofs, P.wrts = [c1['y'].abs], [a.abs if via == 'connect' else 'a']
    P.features = ['index form ' + repr(idx), 'flat' if flat else 'non-flat', via, units]
    return P


IDX_FAMILY = {f'idx_form{k}_{via}_{units}': (lambda k=k, via=via, units=units: idx_form(k, via, units))
              for k in range(len(IDX_FORMS)) for via in ('connect', 'promote') for units in IDX_UNITS}
